"""Per-property checks. Each function: model-check the spec (TLC), bind it to the code built from
/repo's working tree (record with the harness, validate with the trace spec, or replay TLC-generated
behaviours), report violations, write evidence from measured values."""
import json, os, random, re, subprocess, sys, time
from vlib import *


def _sample_lines(path, k=3, pred=None):
    out = []
    with open(path, "r", errors="replace") as f:
        for i, l in enumerate(f):
            if pred and not pred(l):
                continue
            try:
                out.append(json.loads(l))
            except Exception:
                out.append(l.strip())
            if len(out) >= k:
                break
    return out


def _report_rejects(run, res, what, sigkey=None):
    for r in res["rejects"]:
        try:
            ln = json.loads(r["line"])
        except Exception:
            ln = {"raw": r["line"]}
        sig = sigkey(ln, r) if sigkey else r["line"][:300]
        report_violation(run, sig, "%s: the specification rejects line %d of this execution: %s" % (what, r["at"], r["line"][:400]),
                         {"execution": r["exec"][:2000], "rejected_line_index": r["at"]})


def _harness_crash(run, rc, err, what, sig):
    report_violation(run, sig, "%s: harness ended abnormally (rc=%s): %s" % (what, rc, err[-1500:]), {"rc": rc, "stderr": err[-4000:]})


# ---------------------------------------------------------------------------------------------- C08
def C08(run):
    mc = tlc_mc(run, "MC_Wire", workers=8)
    lib = build_lib(run, "dbg")
    exe = build_harness(run, lib, "h_wire", ["vh.c", "h_wire.c"])
    out = run.path("wire.ndjson")
    rc, err = run_harness(run, exe, [run.tier], out)
    if rc != 0:
        _harness_crash(run, rc, err, "cbor_stream_decode sweep", "wire-crash:" + err[-200:])
    n = count_lines(out)
    run.log("recorded %d calls" % n)
    res = tracecheck(run, "Trace_Wire", out, boundary=None)
    _report_rejects(run, res, "cbor_stream_decode contract", lambda ln, r: "sd buf=%s n=%s" % (ln.get("buf"), ln.get("n")))
    kinds = set()
    with open(out) as f:
        for l in f:
            d = json.loads(l)
            kinds.add((d["buf"][0] if d["buf"] else -1, min(d["n"], 12), d["st"]))
    write_evidence(run, "model_checking", {
        "states": mc["distinct"], "transitions": mc["generated"],
        "traces_validated_against_impl": n - len(res["rejects"]),
        "samples": _sample_lines(out, 3, lambda l: '"fin"' in l) + _sample_lines(out, 2, lambda l: '"nedata"' in l),
        "evaluations": n, "distinct_nontrivial": len(kinds),
        "rule": "one case = one cbor_stream_decode call on an exactly-sized heap window; distinct = (initial byte, window length capped at 12, status); all 256 initial bytes x argument values (1-byte exhaustive, 2-byte %s, 4/8-byte every 2^k-1,2^k,2^k+1 + seeded random) x window lengths 0..head+1 and payload-1,payload,payload+1" % ("exhaustive" if not run.quick() else "strided by 251 + boundaries"),
        "trace_lines_validated_by_TLC": res["lines"], "trace_shards": res["shards"], "exhaustive": False},
        ["CborWire.StreamDecode is the requirement (RFC 8949 initial-byte table, cross-checked against the Appendix-B range table by MC_Wire)",
         "ASan/UBSan (dbg build) observe out-of-window reads; the spec judges status/read/required/callback/arguments/allocations",
         "statelessness and suffix-independence are judged by validating every call independently against the same function (repeated heads, varied trailing bytes)"])
