"""Per-property checks. Each function: model-check the spec (TLC), bind it to the code built from
/repo's working tree (record with the harness, validate with the trace spec, or replay TLC-generated
behaviours), report violations, write evidence from measured values."""
import json, os, random, re, subprocess, sys, time
from vlib import *


def _sample_lines(path, k=3, pred=None):
    out = []
    with open(path, "r", errors="replace") as f:
        for i, l in enumerate(f):
            if pred and not pred(l):
                continue
            try:
                out.append(json.loads(l))
            except Exception:
                out.append(l.strip())
            if len(out) >= k:
                break
    return out


def _report_rejects(run, res, what, sigkey=None):
    for r in res["rejects"]:
        try:
            ln = json.loads(r["line"])
        except Exception:
            ln = {"raw": r["line"]}
        sig = sigkey(ln, r) if sigkey else r["line"][:300]
        report_violation(run, sig, "%s: the specification rejects line %d of this execution: %s" % (what, r["at"], r["line"][:400]),
                         {"execution": r["exec"][:2000], "rejected_line_index": r["at"]})


def _harness_crash(run, rc, err, what, sig):
    report_violation(run, sig, "%s: harness ended abnormally (rc=%s): %s" % (what, rc, err[-1500:]), {"rc": rc, "stderr": err[-4000:]})


# ---------------------------------------------------------------------------------------------- C08
def C08(run):
    mc = tlc_mc(run, "MC_Wire", workers=8)
    lib = build_lib(run, "dbg")
    exe = build_harness(run, lib, "h_wire", ["vh.c", "h_wire.c"])
    out = run.path("wire.ndjson")
    rc, err = run_harness(run, exe, [run.tier], out)
    if rc != 0:
        _harness_crash(run, rc, err, "cbor_stream_decode sweep", "wire-crash:" + err[-200:])
    # "keeps no state between calls": the library's globals write-protected during a sweep of calls (shared-library build)
    libs = build_lib(run, "shared")
    exeg = build_harness(run, libs, "h_wire_g", ["vh.c", "h_wire.c"], extra=["-DVH_GLOBALS"], libs=["-ldl"])
    part = run.path("wire-globals.ndjson")
    rc, err = run_harness(run, exeg, ["globals"], part, env={"LD_BIND_NOW": "1"})
    if rc != 0:
        _harness_crash(run, rc, err, "cbor_stream_decode with write-protected library globals", "wire-globals-crash:" + err[-200:])
    open(out, "ab").write(open(part, "rb").read())
    n = count_lines(out)
    run.log("recorded %d calls" % n)
    res = tracecheck(run, "Trace_Wire", out, boundary=None)
    _report_rejects(run, res, "cbor_stream_decode contract", lambda ln, r: "sd buf=%s n=%s" % (ln.get("buf"), ln.get("n")))
    kinds, gl = set(), {}
    with open(out) as f:
        for l in f:
            d = json.loads(l)
            if d["e"] == "globals":
                gl = d
                continue
            kinds.add((d["buf"][0] if d["buf"] else -1, min(d["n"], 12), d["st"]))
    write_evidence(run, "model_checking", {
        "states": mc["distinct"], "transitions": mc["generated"],
        "traces_validated_against_impl": n - len(res["rejects"]),
        "samples": _sample_lines(out, 3, lambda l: '"fin"' in l) + _sample_lines(out, 2, lambda l: '"nedata"' in l),
        "evaluations": n, "distinct_nontrivial": len(kinds),
        "calls_with_library_globals_write_protected": gl.get("calls", 0), "writable_segments_protected": gl.get("segments", 0),
        "rule": "one case = one cbor_stream_decode call on an exactly-sized heap window; distinct = (initial byte, window length capped at 12, status); all 256 initial bytes x argument values (1-byte exhaustive, 2-byte %s, 4/8-byte every 2^k-1,2^k,2^k+1 + seeded random) x window lengths 0..head+1 and payload-1,payload,payload+1" % ("exhaustive" if not run.quick() else "strided by 251 + boundaries"),
        "trace_lines_validated_by_TLC": res["lines"], "trace_shards": res["shards"], "exhaustive": False},
        ["CborWire.StreamDecode is the requirement (RFC 8949 initial-byte table, cross-checked against the Appendix-B range table by MC_Wire)",
         "ASan/UBSan (dbg build) observe out-of-window reads; the spec judges status/read/required/callback/arguments/allocations",
         "statelessness and suffix-independence are judged by validating every call independently against the same function (repeated heads, varied trailing bytes, every start alignment modulo 16), and by a sweep of calls with libcbor.so's writable segments write-protected (a store to any static or global faults; device self-tested by re-installing the allocators)"])


# ---------------------------------------------------------------------------------------------- cbor_load family
LOAD_SRC = ["vh.c", "h_tree.c", "h_gen.c", "h_load.c"]
_re_cur = re.compile(r"CURRENT-INPUT (\w+) idx=(\d+) hex=([0-9a-f]*)")


def _repeats(run, exe, flags, hx):
    f = run.path("confirm-%d.hex" % (int(time.time() * 1e6) % 10**9))
    open(f, "w").write((hx + "\n") * 16)     # 16 times: the harness rotates the start alignment of its input block from call to call
    keep = []
    it = iter(flags)
    for x in it:
        if x in ("--stack", "--faults"):
            keep += [x, next(it, "0")]
        elif x in ("--lean", "--noops", "--libc", "--dedup", "--nodesc"):
            keep.append(x)
    rc, err = run_harness(run, exe, keep + ["hex", f], os.devnull, timeout=600)
    return rc != 0


def _record_loads(run, exe, args, out, what, max_crashes=3, env=None, timeout=1800):
    """Run h_load with crash-resume. Appends the trace to `out`. Returns number of crashes reported."""
    skip, crashes, nonrep = -1, 0, 0
    stats = {"inputs": 0, "executed": 0, "emitted": 0, "shape_failures": 0}
    while True:
        part = out + ".part"
        a = (["--skip", str(skip)] if skip >= 0 else []) + list(args)
        rc, err = run_harness(run, exe, a, part, env=env, timeout=timeout)
        with open(out, "ab") as fo, open(part, "rb") as fi:
            data = fi.read()
            # a crash may leave a partial last execution: cut at the last complete one
            if rc != 0:
                k = data.rfind(b'{"e":"Reset"}')
                data = data[:k] if k >= 0 else b""
            fo.write(data)
        os.unlink(part)
        m = re.search(r"h_load: inputs=(\d+) executed=(\d+) emitted=(\d+) shape_failures=(\d+)", err)
        if m:
            for k, v in zip(("inputs", "executed", "emitted", "shape_failures"), m.groups()):
                stats[k] += int(v) if k != "inputs" else 0
            stats["inputs"] = int(m.group(1))
        if rc == 0:
            break
        crashes += 1
        mc = _re_cur.findall(err)
        if mc:
            why, idx, hx = mc[-1]
            if int(idx) <= skip:
                raise Infra("h_load ended abnormally twice at the same input index %s (%s): %s" % (idx, why, err[-1500:]))
            skip = int(idx)
            # report only what repeats when the single input is run again in isolation (same flags)
            if len(hx) < 1190 and not _repeats(run, exe, list(args), hx):
                run.notes.append("abnormal end (%s) on input %s did not repeat in isolation: not reported" % (why, hx[:80]))
                crashes -= 1
                nonrep += 1
                if nonrep > 20:
                    raise Infra("too many non-repeating abnormal ends: " + err[-800:])
                continue
            report_violation(run, "load-crash hex=%s" % hx[:200],
                             "%s: cbor_load pipeline did not return normally (%s, rc=%s) on input %s\n%s" % (what, why, rc, hx[:200], err[-1200:]),
                             {"input_hex": hx, "harness_args": a, "rc": rc, "stderr": err[-3000:]})
            if crashes >= max_crashes:
                run.notes.append("stopped %s after %d abnormal terminations" % (what, crashes))
                break
        else:
            raise Infra("h_load failed without naming an input (rc=%s): %s" % (rc, err[-1500:]))
    return stats


def _exec_stats(path):
    """(executions, distinct projections, distinct nontrivial projections) measured from a decoder trace."""
    import hashlib
    seen, nontriv, execs = set(), set(), 0
    cur, steps = [], 0
    def flush():
        nonlocal cur, steps
        if cur:
            h = hashlib.md5("|".join(cur).encode()).digest()
            seen.add(h)
            if steps >= 2:
                nontriv.add(h)
        cur, steps = [], 0
    with open(path, "rb") as f:
        for l in f:
            if l.startswith(b'{"e":"Reset"'):
                flush()
                execs += 1
            elif l.startswith(b'{"e":"step"'):
                m = re.search(rb'"head":\[(\d+)[,\]].*?"st":"(\w+)".*?"depth":(\d+)', l)
                cur.append("%s/%s/%s" % (m.group(1).decode(), m.group(2).decode(), m.group(3).decode()) if m else "?")
                steps += 1
            elif l.startswith(b'{"e":"ret"'):
                m = re.search(rb'"code":"(\w+)"', l)
                cur.append(m.group(1).decode() if m else "?")
        flush()
    return execs, len(seen), len(nontriv)


def _judge_loads(run, trace, L, judge, what):
    """Full machine conformance first (Trace_Decoder); every rejected execution is re-judged end to end by
    the clauses of `judge` only (Trace_LoadE2E); only those are violations of this property."""
    env = {"VERIF_L": str(L)}
    res = tracecheck(run, "Trace_Decoder", trace, env=env)
    div = 0
    if res["rejects"]:
        # Some execution is not a behaviour of the machine. Which property (if any) that violates is decided by the
        # end-to-end judge, run over the WHOLE trace (the machine check stops examining a shard after a few rejections).
        e2 = tracecheck(run, "Trace_LoadE2E", trace, env={"VERIF_L": str(L), "VERIF_JUDGE": judge}, max_rejects=4)
        for r in e2["rejects"]:
            steps = [json.loads(x) for x in r["exec"] if x.startswith('{"e":"step"')]
            sig = "load L=%s heads=%s" % (L, ";".join("%s@%s" % (",".join(map(str, s["head"])), s["off"]) for s in steps)[:400])
            report_violation(run, sig, "%s: execution violates %s (line %d rejected): %s" % (what, judge, r["at"], r["line"][:500]),
                             {"execution": r["exec"][:400], "L": L, "judge": judge})
        div = max(0, len(res["rejects"]) - len(e2["rejects"]))
        for r in res["rejects"][:3]:
            if not e2["rejects"]:
                print("NOTE property=%s divergence from the decoder machine that does not violate %s: %s" % (run.pid, judge, r["line"][:300]))
        res["tlc_states"] += e2["tlc_states"]
    res["divergences"] = div
    return res


def _load_check(run, judge, plans, Ls=(None,), variant="dbg", what="cbor_load", extra_runs=None, mc_cfgs=("MC_Decoder_L2",)):
    import concurrent.futures as cf
    mcs = [tlc_mc(run, "MC_Decoder", c, workers=NCPU) for c in mc_cfgs]
    libs = {}
    with cf.ThreadPoolExecutor(max_workers=4) as ex:
        futs = {L: ex.submit(build_lib, run, variant, L) for L in Ls}
        for L, f in futs.items():
            libs[L] = f.result()
    tot = {"lines": 0, "execs": 0, "distinct": 0, "nontrivial": 0, "rejects": 0, "divergences": 0, "executed": 0, "shape_failures": 0, "tlc_states": 0}
    samples = []
    for L in Ls:
        lib = libs[L]
        exe = build_harness(run, lib, "h_load", LOAD_SRC)
        trace = run.path("load-L%s.ndjson" % (L or "dflt"))
        open(trace, "w").close()
        trace_e2e = run.path("load-e2e-L%s.ndjson" % (L or "dflt"))
        open(trace_e2e, "w").close()
        for args in plans(L):
            e2e_only = args and args[0] == "E2E"       # deep executions: judged end to end only (linear in depth)
            if e2e_only:
                args = args[1:]
            st = _record_loads(run, exe, args, trace_e2e if e2e_only else trace, "%s (L=%s)" % (what, L or 2048))
            tot["executed"] += st["executed"]
            tot["shape_failures"] += st["shape_failures"]
        Lv = L or 2048
        res = _judge_loads(run, trace, Lv, judge, what)
        if count_lines(trace_e2e):
            r2 = tracecheck(run, "Trace_LoadE2E", trace_e2e, env={"VERIF_L": str(Lv), "VERIF_JUDGE": judge})
            for r in r2["rejects"]:
                steps = [json.loads(x) for x in r["exec"] if x.startswith('{"e":"step"')]
                sig = "load L=%s heads=%s" % (Lv, ";".join("%s@%s" % (",".join(map(str, s_["head"])), s_["off"]) for s_ in steps)[:400])
                report_violation(run, sig, "%s: execution violates %s (line %d rejected): %s" % (what, judge, r["at"], r["line"][:500]),
                                 {"execution": r["exec"][:60] + ["..."] + r["exec"][-5:], "L": Lv, "judge": judge})
            res["lines"] += r2["lines"]; res["tlc_states"] += r2["tlc_states"]; res["rejects"] += r2["rejects"]
            with open(trace, "ab") as fo, open(trace_e2e, "rb") as fi:
                fo.write(fi.read())
        ex_, d, nt = _exec_stats(trace)
        tot["lines"] += res["lines"]; tot["execs"] += ex_; tot["distinct"] += d; tot["nontrivial"] += nt
        tot["rejects"] += len(res["rejects"]); tot["divergences"] += res["divergences"]; tot["tlc_states"] += res["tlc_states"]
        if len(samples) < 4:
            samples += _sample_lines(trace, 2, lambda l: '"e":"step"' in l and '"depth":2' in l) + _sample_lines(trace, 1, lambda l: '"e":"ret"' in l and '"ok":true' in l)
        run.log("L=%s: %d executions, %d lines validated, %d rejected, %d divergences" % (Lv, ex_, res["lines"], len(res["rejects"]), res["divergences"]))
    return mcs, tot, samples


def _load_evidence(run, mcs, tot, samples, rule, assumptions, extra=None):
    cov = {"states": sum(m["distinct"] for m in mcs), "transitions": sum(m["generated"] for m in mcs),
           "traces_validated_against_impl": tot["execs"] - tot["rejects"], "samples": samples[:6],
           "evaluations": tot["executed"], "distinct_nontrivial": tot["nontrivial"], "distinct_projections": tot["distinct"],
           "rule": rule, "trace_lines_validated_by_TLC": tot["lines"], "tlc_trace_states": tot["tlc_states"],
           "rejected_executions": tot["rejects"], "machine_divergences_not_violating_property": tot["divergences"],
           "harness_outcome_shape_failures": tot["shape_failures"], "exhaustive": False}
    cov.update(extra or {})
    write_evidence(run, "model_checking", cov, assumptions)


LOAD_ASSUME = ["CborGrammar (declarative, from RFC 8949 section 3 / Appendix C and the property statements) is the oracle; MC_Decoder shows it agrees with the stack machine CborDecoder on every head string within the bound",
               "trace lines are raw observations (window bytes, statuses, public getters, allocator counters); all judging is done by TLC",
               "ASan/UBSan/CBOR_ASSERT (dbg build), exactly-sized input blocks and a 10 s watchdog observe what a TLA+ state cannot: stray accesses, UB, assertion failures, hangs"]
DISTINCT_RULE = "one case = one cbor_load execution on an exactly-sized heap copy; distinct = distinct sequence of (initial byte, status, stack depth) per loop iteration + result code; non-trivial = at least two loop iterations; "


def C01(run):
    q = run.quick()
    def plans(L):
        return [["dfs", "3" if q else "4"], ["--dedup", "bytes", "2"], ["rand", "1200" if q else "10000"],
                ["--faults", "10", "rand", "120" if q else "2500"], ["texts"], ["--faults", "64", "hex", os.path.join(HARNESS, "corpus_faults.hex")]]
    mcs, tot, samples = _load_check(run, "C01", plans, what="decode-anything pipeline", mc_cfgs=("MC_Decoder_L2", "MC_Decoder_live"))
    # nesting far beyond any limit, and the nesting families around the limit: outcome shape, follow-up operations, sanitizers, watchdog only
    lib = build_lib(run, "dbg")
    exe = build_harness(run, lib, "h_load", LOAD_SRC)
    deep_out = run.path("deep.ndjson")
    open(deep_out, "w").close()
    for args in (["--lean", "deep", "100000" if q else "3000000"], ["--lean", "nest"]):
        st = _record_loads(run, exe, args, deep_out, "deeply nested input")
        tot["executed"] += st["executed"]
        tot["shape_failures"] += st["shape_failures"]
    for l in open(deep_out):
        if '"shapefail"' in l:
            b = bytes(json.loads(l)["in"][:64])
            report_violation(run, "deep-shape " + b.hex(), "deeply nested input: outcome is neither (item, NONE) nor (NULL, error), or something leaked: %s..." % b.hex(), {"input_prefix_hex": b.hex()})
    extra = {}
    if not q:
        extra = _c01_sweeps(run)
    # the streaming decoder on the same raw bytes is covered by C08's sweep; here additionally all 1-2 byte strings
    _load_evidence(run, mcs, tot, samples, DISTINCT_RULE + "inputs: token strings the decoder keeps reading (depth %s), every byte string <= 2 (deduplicated by projection), seeded random well-formed items (incl. wide containers and long strings) with 6 single-edit neighbours each (truncate, reserved byte, insert/delete break, inflate, bit flip), single refused allocations, nesting families around the limit and 10^5..10^6 levels deep" % ("3" if q else "4"),
                   LOAD_ASSUME, extra)


def _c01_sweeps(run):
    """thorough: every 3-byte string with trace (deduplicated) and every 4-byte string lean, 16 processes, -O2+ASan."""
    import concurrent.futures as cf
    lib = build_lib(run, "o2asan")
    exe = build_harness(run, lib, "h_load", LOAD_SRC)
    tot = {"b3": 0, "b4": 0, "fail": 0}
    def work(job):
        k, lo, hi = job
        out = run.path("sweep-%d-%d.ndjson" % (k, lo))
        st = _record_loads(run, exe, ["--lean", "bytesk", str(k), str(lo), str(hi)], out, "exhaustive %d-byte sweep" % k, timeout=9000)
        bad = []
        with open(out) as f:
            for l in f:
                if '"shapefail"' in l:
                    bad.append(json.loads(l)["in"])
        return k, st["executed"], bad
    jobs = [(3, i * 16, i * 16 + 15) for i in range(16)] + [(4, i * 8, i * 8 + 7) for i in range(32)]
    with cf.ThreadPoolExecutor(max_workers=NCPU) as ex:
        for k, n, bad in ex.map(work, jobs):
            tot["b%d" % k] += n
            for b in bad[:5]:
                tot["fail"] += 1
                report_violation(run, "load-shape hex=%s" % bytes(b).hex(), "outcome of cbor_load pipeline is neither (item, NONE) nor (NULL, error) or leaks, input %s" % bytes(b).hex(), {"input_hex": bytes(b).hex()})
    return {"exhaustive_3_byte_inputs": tot["b3"], "exhaustive_4_byte_inputs": tot["b4"], "sweep_shape_failures": tot["fail"]}


def C02(run):
    q = run.quick()
    def plans(L):
        return [["--noops", "dfs", "4" if q else "5"], ["--noops", "dfs", "2", "all"], ["--noops", "rand", "1500" if q else "12000"],
                ["--noops", "texts"]] + ([] if q else [["E2E", "--noops", "wide", "1"]])
    # the default build and one with a small nesting limit (so that nesting exactly at and just above the limit is enumerated)
    mcs, tot, samples = _load_check(run, "C02", lambda L: plans(L) if L is None else [["--noops", "dfs", "4" if q else "5"], ["--noops", "nest"]], Ls=(None, 2),
                                    what="cbor_load acceptance and tree", mc_cfgs=("MC_Decoder_L1", "MC_Decoder_L2", "MC_Decoder_L3"))
    # flat items with member counts around every power of two up to 2^16 (thorough 2^20): summary lines judged by Trace_Wide
    lib = build_lib(run, "o2asan")
    exe = build_harness(run, lib, "h_load", LOAD_SRC)
    wide = run.path("wide.ndjson")
    _record_simple(run, exe, ["widesum", "0" if q else "1"], wide, "wide flat items")
    wres = tracecheck(run, "Trace_Wide", wide, boundary=None)
    _report_rejects(run, wres, "cbor_load of a flat item with many members", lambda ln, r: "wide kind=%s count=%s" % (ln.get("kind"), ln.get("count")))
    tot["lines"] += wres["lines"]
    _load_evidence(run, mcs, tot, samples, DISTINCT_RULE + "inputs: every token string the decoder keeps reading up to %s heads (16 head classes + huge counts, argument widths cycled), every pair of ALL concrete head variants, seeded random items + single-edit neighbours; text strings with ASCII runs of every length 0..300 alone / behind / between multi-byte scalars; flat arrays, maps and chunked strings of 23..65537 (thorough ..2^20+1) members (summary lines, Trace_Wide); default limit and L=2" % ("4" if q else "5"), LOAD_ASSUME)


def C05(run):
    q = run.quick()
    def plans(L):
        return [["--noops", "dfs", "4" if q else "5"], ["--noops", "rand", "2000" if q else "12000"], ["--noops", "--dedup", "bytes", "2"],
                ["--noops", "--faults", "24", "rand", "250" if q else "1500"], ["--noops", "--faults", "12", "dfs", "3"],
                # every request of a small corpus of growing containers and chunked strings (tables that grow at the 2nd, 3rd, 5th, 9th member)
                ["--noops", "--faults", "64", "hex", os.path.join(HARNESS, "corpus_faults.hex")]]
    # the default build and one with a small nesting limit, so that "at the limit" is inside the enumerated space
    mcs, tot, samples = _load_check(run, "C05", lambda L: plans(L) if L is None else [["--noops", "dfs", "4" if q else "5"], ["--noops", "nest"]], Ls=(None, 3),
                                    what="cbor_load failure report", mc_cfgs=("MC_Decoder_L1", "MC_Decoder_L2", "MC_Decoder_L3"))
    _load_evidence(run, mcs, tot, samples, DISTINCT_RULE + "inputs as C02 (every proper prefix of every enumerated item is in the token enumeration; truncations and corruptions from the random single-edit neighbours); result struct pre-filled with 0xAB; plus, for a subset, every single refused allocation request k = 0..min(N,24)-1 of the load (MEMERROR just past the head whose allocation was refused, nothing left allocated)", LOAD_ASSUME)


def C19(run):
    q = run.quick()
    # 256 / 65536: the values at which a counter held in 8 / 16 bits would wrap
    Ls = (1, 2, 3, 256, None) if q else (1, 2, 3, 8, 64, 255, 256, 257, None)
    def plans(L):
        if L is not None and L <= 8:
            p = [["--noops", "nest"]]
            if L <= 3:
                p.append(["--noops", "dfs", "4" if q else "5"])
        else:
            # deep executions are judged end to end (the step-by-step machine comparison is quadratic in depth)
            p = [["E2E", "--noops", "nest", "0x81" if q else "0xff"], ["--noops", "rand", "300" if q else "3000"]]
        return p
    mcs, tot, samples = _load_check(run, "C19", plans, Ls=Ls, what="nesting limit", mc_cfgs=("MC_Decoder_L1", "MC_Decoder_L2", "MC_Decoder_L3"))
    # native stack: the same nesting families on a thread with a small fixed stack, optimised build, no sanitizer
    import concurrent.futures as cf
    stack_runs = 0
    # (65536: judged in the lean mode only - outcome known by construction, small fixed stack; TLC's grammar recursion does not reach that depth)
    for L in Ls + (() if q else (65536,)):
        lib = build_lib(run, "o2", L)
        exe = build_harness(run, lib, "h_load", LOAD_SRC)
        Lv = L or 2048
        kb = 64 + 2 * Lv
        out = run.path("stack-L%s.ndjson" % Lv)
        open(out, "w").close()
        st = _record_loads(run, exe, ["--stack", str(kb), "--lean"] + (["--nodesc"] if Lv > 4096 else []) + ["nest"], out, "nesting families on a %d KiB stack (L=%d)" % (kb, Lv))
        stack_runs += st["executed"]
        # shallow trees whose payloads / member counts are 8x the stack budget: stack use must not grow with them
        st = _record_loads(run, exe, ["--stack", str(kb), "--lean", "big", str(8 * kb)], out, "large shallow trees on a %d KiB stack (L=%d)" % (kb, Lv))
        stack_runs += st["executed"]
        with open(out) as f:
            for l in f:
                if '"shapefail"' in l:
                    b = bytes(json.loads(l)["in"])
                    report_violation(run, "stack-shape L=%d hex=%s" % (Lv, b.hex()[:200]), "pipeline on small stack: outcome shape wrong for %s..." % b.hex()[:80], {"input_hex": b.hex(), "L": Lv})
    _load_evidence(run, mcs, tot, samples, DISTINCT_RULE + "configurations L in %s built through the repository's CMake option CBOR_MAX_STACK_SIZE; nesting of every container kind (definite/indefinite array and map in key and value position, tags, mixed), innermost scalar / chunked strings, depths L-1, L, L+1, 4L, plus all short token strings for L<=3" % (list(Lv or 2048 for Lv in Ls),),
                   LOAD_ASSUME + ["native stack use is observed by running the -O2 build on a thread whose stack is 64 KiB + 2 KiB * L (SIGSEGV on an alternate stack is reported as a violation); the specification bounds recursion depth, not bytes per frame"],
                   {"small_stack_executions": stack_runs})


def C14(run):
    q = run.quick()
    mc = tlc_mc(run, "MC_Decoder", "MC_Decoder_L2", workers=NCPU)
    lib = build_lib(run, "dbg")
    exe = build_harness(run, lib, "h_load", LOAD_SRC)
    out = run.path("seq.ndjson")
    open(out, "w").close()
    st = _record_loads(run, exe, ["seq", "150" if q else "3000"], out, "suffix independence")
    st2 = _record_loads(run, exe, ["--libc", "seq", "40" if q else "800"], out, "suffix independence (C library allocator)")
    n = count_lines(out)
    res = tracecheck(run, "Trace_Sequence", out, boundary=None, env={"VERIF_L": "2048"})
    _report_rejects(run, res, "suffix independence / sequence splitting",
                    lambda ln, r: ("suffix x=%s y=%s" % (ln.get("x"), ln.get("y"))) if ln.get("e") == "suffix" else ("seq buf=%s" % (ln.get("buf"),)))
    kinds = set()
    with open(out) as f:
        for l in f:
            d = json.loads(l)
            kinds.add((d["e"], tuple((d.get("x") or d.get("buf"))[:3]), d.get("ylen", len(d.get("lens", [])))))
    write_evidence(run, "model_checking", {
        "states": mc["distinct"], "transitions": mc["generated"], "traces_validated_against_impl": n - len(res["rejects"]),
        "samples": _sample_lines(out, 2, lambda l: '"suffix"' in l and '"ylen":1,' in l) + _sample_lines(out, 1, lambda l: '"seq"' in l),
        "evaluations": n, "distinct_nontrivial": len(kinds),
        "rule": "one case = (x, y) pair: x a seeded random well-formed item, y empty / every single byte (first 12 x) or 6 random bytes / another item / garbage / structural bytes (break, indefinite start, reserved, huge string head); or one concatenation of 1..6 items split by the cbor_sequence.c loop; distinct = (kind, first 3 bytes, |y| or item count)",
        "trace_lines_validated_by_TLC": res["lines"], "exhaustive": False},
        ["expected trees and lengths are computed by TLC from the logged bytes with the reference decoder CborLoadRef (tokenisation + grammar)",
         "MC_Decoder shows at model level that the machine stops at the first complete item whatever follows (tokens after the return are never consumed)"])


# ---------------------------------------------------------------------------------------------- serialization family
SER_SRC = ["vh.c", "h_tree.c", "h_gen.c", "h_ser.c"]
_re_case = re.compile(r"CURRENT-CASE (\w+) idx=(\d+) (\w*) ?([0-9a-f]*)")


def _record_simple(run, exe, args, out, what, timeout=1800):
    rc, err = run_harness(run, exe, args, out, timeout=timeout)
    if rc != 0:
        # the harness died: drop a partial last line so that the rest of the trace can still be judged
        data = open(out, "rb").read()
        k = data.rfind(b"\n")
        with open(out, "wb") as f:
            f.write(data[:k + 1] if k >= 0 else b"")
        m = _re_case.findall(err)
        sig = "%s-crash %s" % (what, (m[-1][3][:160] if m else err[-160:]))
        report_violation(run, sig, "%s: harness ended abnormally (rc=%s): %s" % (what, rc, err[-1500:]), {"args": args, "rc": rc, "stderr": err[-4000:]})
    return rc


def _ser_check(run, judge, flags, counts, what, mc):
    lib = build_lib(run, "dbg")
    exe = build_harness(run, lib, "h_ser", SER_SRC)
    out = run.path("ser.ndjson")
    open(out, "w").close()
    for mode, n in counts:
        part = run.path("ser-%s.ndjson" % mode)
        ex = exe
        if "@" in mode:       # "edge@8": the edge cases on a build with nesting limit 8 (deep = 8 levels: cheap to judge)
            mode, L = mode.split("@")
            ex = build_harness(run, build_lib(run, "dbg", L=int(L)), "h_ser", SER_SRC)
        _record_simple(run, ex, flags + [mode, str(n)], part, what)
        with open(out, "ab") as fo, open(part, "rb") as fi:
            fo.write(fi.read())
    n = count_lines(out)
    res = tracecheck(run, "Trace_Serialize", out, boundary=b'{"e":"ser"', env={"VERIF_JUDGE": judge})
    def sig(ln, r):
        first = json.loads(r["exec"][0]) if r["exec"] else {}
        return "%s %s bytes=%s" % (ln.get("e"), ("n=%s" % ln.get("n")) if "n" in ln else "", first.get("bytes", "")[:60] if isinstance(first.get("bytes"), list) else "")
    _report_rejects(run, res, what, sig)
    cases, shapes, nontriv = 0, set(), set()
    with open(out) as f:
        for l in f:
            if l.startswith('{"e":"ser"'):
                cases += 1
                d = json.loads(l)
                sh = tuple((x["t"], x["w"], x["def"], x["nc"]) for x in d["tree"])
                shapes.add(sh)
                if len(d["tree"]) >= 2:
                    nontriv.add(sh)
    return mc, res, out, n, cases, len(shapes), len(nontriv)


TREE_RULE = "one case = one item tree: built by seeded random sequences of public construction calls (all builders, all widths, boundary values 0,23,24,255,256,65535,65536,2^32-1,2^32,2^64-1, empty and multi-chunk strings, definite containers with a spare slot, shared sub-items, two 2100-member arrays; scalars also through cbor_new_* + cbor_set_*/cbor_mark_*; definite strings with a never-set handle; nesting at the decoder's limit and limit-1 for every opener kind; strings and chunks of 4095..65537 bytes) or returned by cbor_load on a seeded random well-formed encoding (all argument widths incl. non-minimal); distinct = distinct tree shape (type, width, flavour, child count per node); non-trivial = at least two nodes"


def C03(run):
    q = run.quick()
    mc = tlc_mc(run, "MC_RoundTrip", "MC_RoundTrip" if q else "MC_RoundTrip_wide", workers=NCPU, timeout=3000)
    # scalars made through cbor_new_X + cbor_set_X / cbor_mark_X: histories replayed through CborScalars; under C03 only the
    # serialization clause is judged (the getter clauses of the same trace spec go beyond what C03 states: tools/dev/t_scalars.py)
    mcs_ = tlc_mc(run, "MC_Scalars", workers=2)
    libd = build_lib(run, "dbg")
    exes = build_harness(run, libd, "h_scalars", ["vh.c", "h_scalars.c"])
    sc = run.path("scalars.ndjson")
    _record_simple(run, exes, ["1500" if q else "30000"], sc, "scalar construction histories")
    sres = tracecheck(run, "Trace_Scalars", sc, boundary=b'{"e":"sc","op":"New', env={"VERIF_JUDGE": "C03"})
    _report_rejects(run, sres, "serialization of a scalar built through setters", lambda ln, r: "scalar op=%s w=%s ser=%s" % (ln.get("op"), ln.get("w"), ln.get("ser")))
    mc, res, out, n, cases, shapes, nontriv = _ser_check(run, "C03", [], [("api", 2500 if q else 40000), ("dec", 2500 if q else 40000), ("edge@8", 1), ("edge", 3 if q else 0)], "serialization / round trip", mc)
    write_evidence(run, "model_checking", {
        "states": mc["distinct"], "transitions": mc["generated"], "traces_validated_against_impl": cases - len(res["rejects"]),
        "samples": _sample_lines(out, 2, lambda l: '"nc":2' in l), "evaluations": cases, "distinct_nontrivial": nontriv, "distinct_shapes": shapes,
        "rule": TREE_RULE, "trace_lines_validated_by_TLC": res["lines"] + sres["lines"], "scalar_setter_history_lines": sres["lines"], "exhaustive": False},
        ["CborEncode.Encode (transcribed from RFC 8949 section 3, Appendix A/B) is the oracle, evaluated by TLC on each logged tree; MC_RoundTrip checks it against the independently written decoding half of the spec on every tree of a bounded space",
         "trees are logged through public getters; the reload uses an exactly-sized copy of the serializer's output"])


def C07(run):
    q = run.quick()
    mc = tlc_mc(run, "MC_RoundTrip", workers=NCPU)
    mc, res, out, n, cases, shapes, nontriv = _ser_check(run, "C07", ["--sern", "--wildhalf"], [("api", 700 if q else 60000), ("dec", 500 if q else 60000), ("edge", 0), ("bigshare", 0)], "size / serialize / serialize_alloc agreement", mc)
    lib = build_lib(run, "dbg")
    exe = build_harness(run, lib, "h_enc", ["vh.c", "h_enc.c"])
    eout = run.path("encn.ndjson")
    _record_simple(run, exe, ["c07"], eout, "encoder buffer contract")
    eres = tracecheck(run, "Trace_EncDec", eout, boundary=None)
    _report_rejects(run, eres, "cbor_encode_* buffer contract", lambda ln, r: "encn f=%s a=%s n=%s" % (ln.get("f"), ln.get("a"), ln.get("n")))
    write_evidence(run, "model_checking", {
        "states": mc["distinct"], "transitions": mc["generated"], "traces_validated_against_impl": cases - len(res["rejects"]),
        "samples": _sample_lines(out, 3, lambda l: '"sern"' in l) + _sample_lines(eout, 2),
        "evaluations": n - cases + eres["lines"], "distinct_nontrivial": nontriv, "distinct_shapes": shapes,
        "rule": TREE_RULE + "; each tree x every buffer size 0..size+2 (sizes > 48: 10 sizes around 0, size/2, size); every cbor_encode_* x boundary values x buffer sizes 0..10; buffers: sentinel-framed window and an exactly-sized heap block (ASan)",
        "trace_lines_validated_by_TLC": res["lines"] + eres["lines"], "encoder_lines": eres["lines"], "exhaustive": False},
        ["the contract ret = (n >= size ? size : 0), nothing outside the first n bytes, alloc buffer of exactly size bytes is judged by TLC on every logged call",
         "writes outside the window are observed by a sentinel frame and by ASan red zones around an exactly-sized block"])


def C10(run):
    q = run.quick()
    mc = tlc_mc(run, "MC_EncDec", workers=NCPU)
    lib = build_lib(run, "dbg")
    exe = build_harness(run, lib, "h_enc", ["vh.c", "h_enc.c"])
    out = run.path("enc.ndjson")
    _record_simple(run, exe, ["c10", run.tier], out, "encoders")
    n = count_lines(out)
    res = tracecheck(run, "Trace_EncDec", out, boundary=None)
    _report_rejects(run, res, "cbor_encode_* / cbor_stream_decode inverse", lambda ln, r: "enc f=%s a=%s" % (ln.get("f"), ln.get("a")))
    kinds = set()
    with open(out) as f:
        for l in f:
            m = re.search(r'"f":"(\w+)".*?"ret":(\d+)', l)
            kinds.add(m.groups() if m else l[:30])
    write_evidence(run, "model_checking", {
        "states": mc["distinct"], "transitions": mc["generated"], "traces_validated_against_impl": n - len(res["rejects"]),
        "samples": _sample_lines(out, 2, lambda l: '"uint"' in l and '"ret":5' in l) + _sample_lines(out, 1, lambda l: '"half"' in l),
        "evaluations": n, "distinct_nontrivial": len(kinds),
        "rule": "one case = one (encoder, value): all 27 public cbor_encode_* functions; 8-bit domains exhaustive; 16-bit %s; 32/64-bit every 2^k-1, 2^k, 2^k+1, width boundaries and seeded random; all 65,536 halves (quick: every 5th) as half-representable floats, singles/doubles per exponent x boundary mantissa + NaNs; distinct = (encoder, bytes written)" % ("exhaustive" if not q else "every 7th + boundaries"),
        "trace_lines_validated_by_TLC": res["lines"], "exhaustive": False},
        ["CborEncode.EncoderBytes is the requirement; MC_EncDec checks it against CborWire on the bounded domain",
         "the decoder is run on an exactly-sized heap copy of the bytes written"])


def C11(run):
    q = run.quick()
    mc = tlc_mc(run, "MC_RoundTrip", workers=NCPU)
    mc, res, out, n, cases, shapes, nontriv = _ser_check(run, "C11", ["--copy", "--wildhalf"], [("api", 2500 if q else 120000), ("dec", 1500 if q else 100000), ("edge", 0)], "cbor_copy", mc)
    write_evidence(run, "model_checking", {
        "states": mc["distinct"], "transitions": mc["generated"], "traces_validated_against_impl": cases - len(res["rejects"]),
        "samples": _sample_lines(out, 1, lambda l: '"copy"' in l and '"nc":2' in l), "evaluations": cases, "distinct_nontrivial": nontriv, "distinct_shapes": shapes,
        "rule": TREE_RULE + "; per tree: copy, compare shape/content/refcounts/bytes, address sets of nodes and buffers, modify and release the copy then re-serialize the source, copy of a copy after releasing the first",
        "trace_lines_validated_by_TLC": res["lines"], "exhaustive": False},
        ["equality of shape, refcounts, byte images and address-set disjointness are judged by TLC on logged observations; use-after-free through a shared node or buffer is observed by ASan"])


# ---------------------------------------------------------------------------------------------- C15 / C16
def C15(run):
    q = run.quick()
    mc = tlc_mc(run, "MC_Float", workers=NCPU)
    lib = build_lib(run, "dbg")
    exe = build_harness(run, lib, "h_float", ["vh.c", "h_float.c"])
    out = run.path("float.ndjson")
    _record_simple(run, exe, [run.tier], out, "float decode/encode")
    n = count_lines(out)
    res = tracecheck(run, "Trace_Float", out, boundary=None)
    _report_rejects(run, res, "float bits", lambda ln, r: "float %s b=%s" % (ln.get("e"), ln.get("b")))
    extra = {}
    if not q:
        import concurrent.futures as cf
        lib2 = build_lib(run, "o2asan")
        exe2 = build_harness(run, lib2, "h_float", ["vh.c", "h_float.c"])
        def work(i):
            o = run.path("sweep-%d.ndjson" % i)
            rc, err = run_harness(run, exe2, ["sweep", str(i * 16), str(i * 16 + 15)], o, timeout=3600)
            bad = [json.loads(l)["bits"] for l in open(o) if "sweepfail" in l]
            return rc, err, bad
        swept = 0
        with cf.ThreadPoolExecutor(max_workers=NCPU) as ex:
            for rc, err, bad in ex.map(work, range(16)):
                if rc != 0:
                    report_violation(run, "float-sweep-crash " + err[-100:], "single-precision sweep ended abnormally: " + err[-800:], {"stderr": err[-3000:]})
                else:
                    swept += 1 << 28
                for b in bad[:5]:
                    report_violation(run, "single bits=%08x" % b, "single pattern %08x does not survive decode/encode (class rule: NaN => canonical, else identity)" % b, {"bits": b})
        extra = {"exhaustive_single_patterns": swept}
    kinds = set()
    with open(out) as f:
        for l in f:
            d = json.loads(l)
            b = d["b"]
            kinds.add((d["e"], b[0], b[1] >> 4 if d["e"] != "half" else b[1] >> 6))
    cov = {"states": mc["distinct"], "transitions": mc["generated"], "traces_validated_against_impl": n - len(res["rejects"]),
           "samples": _sample_lines(out, 1, lambda l: '"half"' in l and '"b":[60,' in l) + _sample_lines(out, 1, lambda l: '"tot"' in l) + _sample_lines(out, 1, lambda l: '"double"' in l and '[127,24' in l),
           "evaluations": n, "distinct_nontrivial": len(kinds),
           "rule": "one case = one bit pattern through cbor_stream_decode, cbor_load + getters, cbor_encode_half/single/double, cbor_serialize and a rebuilt item: all 65,536 halves; singles: every exponent x 14 boundary mantissas x sign, a stride of %s over all 2^32, seeded random; doubles: every exponent x 8 mantissas x sign + seeded random; the half encoder additionally on every one of those singles (totality); distinct = (width, sign/exponent prefix)" % ("4099" if not q else "65537"),
           "trace_lines_validated_by_TLC": res["lines"], "exhaustive": False}
    cov.update(extra)
    write_evidence(run, "model_checking", cov,
                   ["CborFloat (IEEE-754 fields as integers) is the oracle; MC_Float checks the transcription of cbor_encode_half's algorithm against the requirement on all halves and its totality on every exponent",
                    "undefined behaviour (out-of-range shifts, bad narrowing) is observed by UBSan in the dbg build",
                    "thorough: all 2^32 single patterns are swept in-harness with the class rule (NaN => canonical, else identity) that TLC validated on the strided subset"])


def C16(run):
    q = run.quick()
    mc = tlc_mc(run, "MC_Utf8", "MC_Utf8" if q else "MC_Utf8_4", workers=NCPU)
    lib = build_lib(run, "o2asan")
    exe = build_harness(run, lib, "h_utf8", ["vh.c", "h_utf8.c"])
    import concurrent.futures as cf
    K = 3 if q else 4
    parts = NCPU
    outs = []
    def work(i):
        o = run.path("utf8-%d.ndjson" % i)
        rc, err = run_harness(run, exe, ["sweep", str(K), str(i), str(parts)], o, timeout=7200)
        return i, rc, err, o
    total_concrete = 0
    out = run.path("utf8.ndjson")
    with open(out, "wb") as fo:
        with cf.ThreadPoolExecutor(max_workers=parts) as ex:
            for i, rc, err, o in ex.map(work, range(parts)):
                if rc != 0:
                    report_violation(run, "utf8-sweep-crash " + err[-100:], "UTF-8 sweep ended abnormally: " + err[-800:], {"stderr": err[-3000:]})
                fo.write(open(o, "rb").read())
        o2 = run.path("utf8-rand.ndjson")
        _record_simple(run, exe, ["rand", "400" if q else "8000"], o2, "UTF-8 random texts")
        fo.write(open(o2, "rb").read())
    n = count_lines(out)
    res = tracecheck(run, "Trace_Utf8", out, boundary=None)
    _report_rejects(run, res, "code point count", lambda ln, r: "utf8 %s %s" % (ln.get("e"), ln.get("rep", ln.get("b"))))
    cls, texts = 0, 0
    with open(out) as f:
        for l in f:
            if l.startswith('{"e":"cls"'):
                cls += 1
                total_concrete += int(re.search(r'"n":(\d+)', l).group(1))
            elif l.startswith('{"e":"txt"'):
                texts += 1
    write_evidence(run, "model_checking", {
        "states": mc["distinct"], "transitions": mc["generated"], "traces_validated_against_impl": n - len(res["rejects"]),
        "samples": _sample_lines(out, 2, lambda l: '"cls"' in l and '"count":1' in l) + _sample_lines(out, 1, lambda l: '"txt"' in l and '"cp_set":3' in l),
        "evaluations": total_concrete + texts, "distinct_nontrivial": cls + texts - 1,
        "concrete_byte_sequences_executed": total_concrete, "class_sequences": cls, "random_texts": texts,
        "rule": "every byte sequence of length 0..%d (each executed through cbor_string_set_handle; cbor_build_stringn and cbor_load for all of length <= 3 and a 1/61 sample of length 4), grouped by class sequence over the 14-class partition induced by the RFC 3629 ABNF; plus seeded random valid texts with one fault (overwrite, delete, truncate, stray continuation) injected at every position; distinct = class sequence or text; a lone class is trivial only for the empty text" % K,
        "trace_lines_validated_by_TLC": res["lines"], "exhaustive": True},
        ["Utf8.Count (RFC 3629 ABNF) is the oracle; MC_Utf8 checks it against an independent numeric definition on every sequence of class representatives and proves the class partition exact",
         "for a class sequence the harness executes every concrete byte sequence and logs whether all agreed with the representative; TLC judges the representative and that flag"])


# ---------------------------------------------------------------------------------------------- C04 / C12
ITEMS_SRC = ["vh.c", "h_tree.c", "h_gen.c", "h_items.c"]


def _sim_histories(run, num, depth=14):
    """A-direction: behaviours of the bounded CborItems model chosen by TLC's simulator, written as call scripts for h_items."""
    seed = int(os.environ.get("VERIF_SEED", "1"))
    st = tlc(run, "Sim_Items", workers=4, simulate="num=%d" % num, timeout=1200, extra=["-depth", str(depth), "-seed", str(seed)], tag="sim")
    if st["rc"] != 0:
        raise Infra("Sim_Items simulation failed: " + st["out"][-1500:])
    seen, path = set(), run.path("items-script.txt")
    with open(path, "w") as f:
        for m in re.finditer(r'<<"HIST", "(.*)">>', st["out"]):
            js = m.group(1).encode().decode("unicode_escape")
            if js in seen:
                continue
            seen.add(js)
            ops = json.loads(js)
            f.write(";".join("%s %d %d %d %d %d %d %d %s" % (o["name"], *((list(o["a"]) + [0, 0, 0])[:3]), o["idx"], o["ret"], 1 if o["def"] else 0, o["cap"], o["sub"] or "-")
                             for o in ops) + "\n")
    if not seen:
        raise Infra("Sim_Items produced no behaviours: " + st["out"][-1500:])
    return path, len(seen)


def _items_check(run, judge, cfgs, plans, what):
    mcs = [tlc_mc(run, "MC_Items", c, workers=NCPU, timeout=3000) for c in cfgs]
    lib = build_lib(run, "dbg")
    exe = build_harness(run, lib, "h_items", ITEMS_SRC)
    out = run.path("items.ndjson")
    open(out, "w").close()
    run.sim_histories = 0
    for args in plans:
        if args[0] == "sim":
            spath, run.sim_histories = _sim_histories(run, int(args[1]))
            args = ["script", spath, "0"]
        part = run.path("items-part.ndjson")
        _record_simple(run, exe, args, part, what)
        with open(out, "ab") as fo, open(part, "rb") as fi:
            fo.write(fi.read())
    n = count_lines(out)
    res = tracecheck(run, "Trace_Items", out, cfg="Trace_Items_" + judge, env={"VERIF_JUDGE": judge})
    def sig(ln, r):
        ops = [json.loads(x) for x in r["exec"][:r["at"] + 1] if '"e":"op"' in x]
        return "history " + ";".join("%s%s@%s" % (o["name"], [a for a in o["a"] if a], o["idx"]) for o in ops[-12:])
    _report_rejects(run, res, what, sig)
    hist, ops, kinds = 0, 0, set()
    cur = []
    with open(out) as f:
        for l in f:
            if l.startswith('{"e":"Reset"'):
                hist += 1
                if len(cur) > 2:
                    kinds.add(tuple(cur))
                cur = []
            elif l.startswith('{"e":"op"'):
                ops += 1
                m = re.search(r'"name":"(\w+)".*?"ret":(\d+)', l)
                cur.append((m.group(1), m.group(2) != "0"))
            elif l.startswith('{"e":"grow"'):
                kinds.add(l[:40])
    if len(cur) > 2:
        kinds.add(tuple(cur))
    return mcs, res, out, n, hist, ops, len(kinds)


def C04(run):
    q = run.quick()
    cfgs = ["MC_Items_arr", "MC_Items_map", "MC_Items_tag", "MC_Items_chunk", "MC_Items_copysmall"] + ([] if q else ["MC_Items_copy"])
    mcs, res, out, n, hist, ops, kinds = _items_check(run, "C04", cfgs, [["hist", "700" if q else "20000", "60" if q else "80"], ["sim", "40" if q else "2500"]], "ownership history")
    write_evidence(run, "model_checking", {
        "states": sum(m["distinct"] for m in mcs), "transitions": sum(m["generated"] for m in mcs),
        "traces_validated_against_impl": hist - len(res["rejects"]),
        "samples": _sample_lines(out, 2, lambda l: '"MovePush"' in l or '"TagSet"' in l),
        "evaluations": ops, "distinct_nontrivial": kinds, "histories": hist,
        "spec_behaviours_replayed_on_impl": run.sim_histories,
        "rule": "one case = one history of public API calls following the documented ownership rules over a table of up to 24 client references (new/build of every type, push, move-into-container, set, replace, get, map add, add chunk, tag set/get/build, copy, load, serialize, incref, decref, intermediate decref; shared sub-items; then the client drops every reference); after every call refcounts, contents and the client's reference bag are compared with the specification state by TLC; distinct = distinct sequence of (operation, success); non-trivial = more than two calls",
        "trace_lines_validated_by_TLC": res["lines"], "exhaustive": False},
        ["CborItems (reference-counted object graph with the ghost client bag) is checked exhaustively by TLC on pools of 3-4 items per operation family: RcExact, EdgesLive, FreedOnce, NoLeak hold for every rule-following history within the bound",
         "Trace_Items re-checks every precondition (ownership rules, acyclicity), so a driver mistake is an illegal trace (exit 2), never a verdict",
         "A-direction: spec/Sim_Items.tla lets TLC's simulator choose behaviours of the bounded model (pool of 5, every operation, pool-id reuse, refusals, out-of-range indexes) and prints them as call scripts; h_items executes each script on the library and Trace_Items compares the state after every call",
         "use after release is observed by ASan; the allocator registry reports foreign or repeated frees"])


def C12(run):
    q = run.quick()
    cfgs = ["MC_Items_arr", "MC_Items_map", "MC_Items_chunk"]
    mcs, res, out, n, hist, ops, kinds = _items_check(run, "C12", cfgs,
        [["hist", "500" if q else "20000", "60" if q else "80", "containers"], ["grow", "40000" if q else "400000", "0"], ["sim", "30" if q else "2500"]], "container history")
    write_evidence(run, "model_checking", {
        "states": sum(m["distinct"] for m in mcs), "transitions": sum(m["generated"] for m in mcs),
        "traces_validated_against_impl": hist - len(res["rejects"]),
        "samples": _sample_lines(out, 1, lambda l: '"Set"' in l) + _sample_lines(out, 1, lambda l: '"grow"' in l and '"n":4' in l),
        "evaluations": ops, "distinct_nontrivial": kinds, "histories": hist,
        "spec_behaviours_replayed_on_impl": run.sim_histories,
        "rule": "one case = one history of push, set, replace, get (indexes 0..size+2), map add and add chunk on definite (capacity 0..8) and indefinite arrays, maps and chunked strings, compared step by step with the abstract sequence by TLC; plus n insertions (n = 0..17, a random n, and %s) into each indefinite kind with capacity logged at every change and reallocations counted by the allocator; distinct = distinct sequence of (operation, success)" % ("40000" if q else "400000"),
        "trace_lines_validated_by_TLC": res["lines"], "exhaustive": False},
        ["MC_Items (arr, map, chunk families) checks SizeWithinCap, refusal at capacity, out-of-range refusal and logarithmic growth exhaustively on the small pool",
         "in conformance the capacity after a growth step is read from the real container: any growth that keeps size <= capacity, never shrinks and stays within the reallocation bound is accepted",
         "A-direction: behaviours chosen by TLC's simulator from spec/Sim_Items.tla are executed on the library and compared step by step (see C04)",
         "out-of-bounds accesses are observed by ASan"])


# ---------------------------------------------------------------------------------------------- C13 / C06
ALLOC_SRC = ["vh.c", "h_tree.c", "h_gen.c", "h_alloc.c"]
WRAP = ["-DVH_WRAP", "-Wl,--wrap=malloc,--wrap=calloc,--wrap=realloc,--wrap=free"]


def C13(run):
    q = run.quick()
    mc = tlc_mc(run, "MC_AllocFault", workers=NCPU)
    lib = build_lib(run, "dbg")
    exe = build_harness(run, lib, "h_alloc", ALLOC_SRC, extra=WRAP)
    out = run.path("alloc.ndjson")
    open(out, "w").close()
    nrun = 0
    for mode in ("c13", "c13arena"):
        part = run.path("alloc-%s.ndjson" % mode)
        _record_simple(run, exe, [mode, "600" if q else "60000"], part, "allocator workload (%s)" % mode)
        with open(out, "ab") as fo, open(part, "rb") as fi:
            fo.write(fi.read())
    # nesting beyond the decoder's limit, against a build with a small limit (short logs)
    lib8 = build_lib(run, "dbg", 8)
    exe8 = build_harness(run, lib8, "h_alloc", ALLOC_SRC, extra=WRAP)
    part = run.path("alloc-limit.ndjson")
    _record_simple(run, exe8, ["c13limit", "0"], part, "allocator workload (over-limit nesting, L=8)")
    with open(out, "ab") as fo, open(part, "rb") as fi:
        fo.write(fi.read())
    # the ownership histories of C04 under the same allocator: foreign / repeated frees and leaks are judged there as well
    exe2 = build_harness(run, lib, "h_items_w", ITEMS_SRC, extra=WRAP)
    hist = run.path("items.ndjson")
    _record_simple(run, exe2, ["hist", "200" if q else "20000", "50"], hist, "API histories under the instrumenting allocator")
    bad_end = [l for l in open(hist) if l.startswith('{"e":"end"') and ('"live":0,' not in l or '"foreign":0' not in l)]
    for l in bad_end[:3]:
        report_violation(run, "history-end " + l.strip()[:80], "API history left blocks live or released a foreign/stale pointer: " + l.strip(), {"line": l.strip()})
    n = count_lines(out)
    res = tracecheck(run, "Trace_Alloc", out, boundary=b'{"e":"quiet"')
    def sig(ln, r):
        return "alloc op=%s pure=%s bypass=%s events=%s" % (ln.get("name"), ln.get("pure"), ln.get("bypass"), "".join(e["op"] for e in ln.get("ev", []))[:60])
    _report_rejects(run, res, "allocator discipline", sig)
    ops, kinds, events = 0, set(), 0
    with open(out) as f:
        for l in f:
            if l.startswith('{"e":"op"'):
                ops += 1
                d = json.loads(l)
                events += len(d["ev"])
                kinds.add((d["name"], "".join(e["op"] for e in d["ev"])[:40]))
    write_evidence(run, "model_checking", {
        "states": mc["distinct"], "transitions": mc["generated"], "traces_validated_against_impl": ops - len(res["rejects"]),
        "samples": _sample_lines(out, 1, lambda l: '"name":"copy"' in l and '"R"' in l) + _sample_lines(out, 1, lambda l: '"pure":true' in l),
        "evaluations": ops, "distinct_nontrivial": len(kinds), "allocator_events": events, "histories_under_instrumenting_allocator": count_lines(hist),
        "rule": "one case = one library operation bracketed in the allocator log (load of seeded random encodings and their corruptions/truncations, describe, serialized_size, serialize, serialize_alloc + client free, copy, release, every cbor_stream_decode call, encoders, construction API); configurations: registry allocator that always moves on realloc (stale pointers poisoned under ASan) with link-time interposition of malloc/calloc/realloc/free to catch direct libc calls, and an mmap arena with no libc backing; distinct = (operation, event pattern)",
        "trace_lines_validated_by_TLC": res["lines"], "exhaustive": False},
        ["the live-block set is computed by TLC from the logged events (CborAllocEvents), not taken from harness counters",
         "a direct libc allocator call during a library operation is observed by -Wl,--wrap interposition; with the arena a stray libc free/realloc aborts",
         "allocators are installed with cbor_set_allocs before any item exists"])


def C06(run):
    q = run.quick()
    mc = tlc_mc(run, "MC_AllocFault", workers=NCPU)
    lib = build_lib(run, "dbg")
    exe = build_harness(run, lib, "h_alloc", ALLOC_SRC, extra=WRAP)
    out = run.path("fault.ndjson")
    open(out, "w").close()
    skip, crashes = -1, 0
    while True:
        part = run.path("fault-part.ndjson")
        args = ["c06", "60" if q else "6000"] + (["--skip", str(skip)] if skip >= 0 else [])
        rc, err = run_harness(run, exe, args, part, timeout=3000)
        data = open(part, "rb").read()
        if rc != 0:
            k = data.rfind(b"\n")
            data = data[:k + 1] if k >= 0 else b""
        with open(out, "ab") as fo:
            fo.write(data)
        if rc == 0:
            break
        m = re.findall(r"CURRENT-CASE (\w+) idx=(\d+) (.*)", err)
        if not m:
            raise Infra("h_alloc c06 failed: " + err[-1500:])
        why, idx, desc = m[-1]
        report_violation(run, "fault-crash " + desc, "operation crashed (%s) under an allocation fault: %s\n%s" % (why, desc, err[-1200:]), {"case": desc, "stderr": err[-3000:]})
        crashes += 1
        skip = int(idx)
        if crashes >= 4:
            break
    n = count_lines(out)
    res = tracecheck(run, "Trace_Alloc", out, boundary=None)
    _report_rejects(run, res, "allocation failure", lambda ln, r: "fault sc=%s variant=%s k=%s mode=%s in=%s" % (ln.get("sc"), ln.get("variant"), ln.get("k"), ln.get("mode"), ln.get("in", "")))
    kinds, scen = set(), set()
    with open(out) as f:
        for l in f:
            m = re.search(r'"sc":"(\w+)","variant":(\d+),"k":(\d+),"mode":"(\w+)","n":(\d+)', l)
            if m:
                kinds.add(m.groups())
                scen.add((m.group(1), m.group(2), m.group(5)))
    write_evidence(run, "fault_enumeration" if False else "model_checking", {
        "states": mc["distinct"], "transitions": mc["generated"], "traces_validated_against_impl": n - len(res["rejects"]),
        "samples": _sample_lines(out, 1, lambda l: '"sc":"copy"' in l and '"k":2' in l) + _sample_lines(out, 1, lambda l: '"sc":"push"' in l),
        "evaluations": n, "distinct_nontrivial": len(kinds), "scenarios": len(scen),
        "rule": "one case = (scenario, k, schedule): scenarios = cbor_load of each corpus input (38 fixed + seeded random well-formed), cbor_copy and cbor_serialize_alloc of each corpus tree and of API-built trees with shared sub-items, 25 builders, push / array_set / map_add / add_chunk at container sizes 0,1,2,3,4,7,8,16, build_tag; for each the N allocator requests of a fault-free run are counted, then request k = 0..N-1 is refused alone and refused together with all later ones; exhaustive per scenario",
        "trace_lines_validated_by_TLC": res["lines"], "exhaustive": True, "crashes": crashes},
        ["MC_AllocFault checks the transaction pattern (serve or refuse, unwind, report) for every operation length, request index and schedule",
         "per case TLC folds the logged allocator events: a failed operation may release or move only blocks it obtained itself and must hold none at the end; arguments are compared as logged trees with reference counts",
         "crashes are observed by ASan/UBSan and reported with the scenario"])


# ---------------------------------------------------------------------------------------------- C09
def C09(run):
    q = run.quick()
    mc = tlc_mc(run, "MC_Stream", workers=NCPU)
    mcl = tlc_mc(run, "MC_Stream", "MC_Stream_live", workers=NCPU)
    lib = build_lib(run, "dbg")
    exe = build_harness(run, lib, "h_stream", ["vh.c", "h_gen.c", "h_stream.c"])
    out = run.path("stream.ndjson")
    _record_simple(run, exe, ["150" if q else "12000", "600" if q else "3000"], out, "incremental client")
    if any('"livelock"' in l for l in open(out)):
        report_violation(run, "stream-livelock", "the incremental client kept calling the decoder without progress (a wait that does not exceed what is buffered)", {})
    n = count_lines(out)
    res = tracecheck(run, "Trace_Stream", out, boundary=b'{"e":"stream"')
    def sig(ln, r):
        first = json.loads(r["exec"][0])
        arr = [json.loads(x).get("k") for x in r["exec"][:r["at"]] if '"arrive"' in x]
        return "stream=%s cuts=%s" % (bytes(first.get("bytes", [])).hex()[:160], arr[:20])
    _report_rejects(run, res, "fragmented stream", sig)
    runs, kinds, calls = 0, set(), 0
    cur = None
    with open(out) as f:
        for l in f:
            if l.startswith('{"e":"stream"'):
                runs += 1
                cur = [l[:60]]
            elif l.startswith('{"e":"arrive"'):
                cur.append(l[15:25])
            elif l.startswith('{"e":"call"'):
                calls += 1
            elif l.startswith('{"e":"end"') and cur is not None:
                if len(cur) > 2:
                    kinds.add(tuple(cur))
    write_evidence(run, "model_checking", {
        "states": mc["distinct"] + mcl["distinct"], "transitions": mc["generated"] + mcl["generated"],
        "traces_validated_against_impl": runs - len(res["rejects"]),
        "samples": _sample_lines(out, 1, lambda l: '"stream"' in l) + _sample_lines(out, 2, lambda l: '"nedata"' in l),
        "evaluations": runs, "distinct_nontrivial": len(kinds), "decoder_calls": calls,
        "rule": "one case = (stream, fragmentation): streams are seeded concatenations of 1..6 well-formed items and raw structural heads, some ending inside an item, some containing a reserved byte or a string head declaring 2^64-1 bytes; fragmentations: all at once, byte at a time, every single cut point (streams <= 40 bytes, a sample beyond), three random cuttings; the arrived bytes live in an exactly-sized heap block; distinct = (stream prefix, arrival pattern); non-trivial = at least two arrivals",
        "trace_lines_validated_by_TLC": res["lines"], "exhaustive": False},
        ["MC_Stream discharges the histories quantifier at model level: every stream of <= 3 heads from a 13-head alphabet (and their truncations) x EVERY fragmentation x both extreme legal values of `required`; liveness (complete delivery) under weak fairness",
         "in conformance the real decoder's `required` only has to satisfy the C08 contract; the events are compared token by token with the tokenisation TLC computes from the whole stream"])


# ---------------------------------------------------------------------------------------------- C20
def C20(run):
    import concurrent.futures as cf
    q = run.quick()
    mcs = [tlc_mc(run, "SizeArith", "MC_SizeArith_W%d" % w, workers=NCPU) for w in ((4, 8) if q else (4, 6, 8))]
    mcs.append(tlc_mc(run, "SizeArithBits_W8", "MC_SizeArithBits_W8", workers=NCPU))
    # symbolic, all operands at W = 64 (and 32 in thorough)
    obl = [("SizeArith", "Apa_SizeArith_W64", "AddExact"), ("SizeArith", "Apa_SizeArith_W64", "SigAddOK"),
           ("SizeArithBits_W64", "Apa_SizeArithBits", "MulSound"), ("SizeArithBits_W64", "Apa_SizeArithBits", "GrowSound"),
           ("SizeArithBits_W64", "Apa_SizeArithBits", "MulNotTooStrict")]
    if not q:
        obl += [("SizeArith", "Apa_SizeArith_W32", "AddExact"), ("SizeArith", "Apa_SizeArith_W32", "SigAddOK"),
                ("SizeArithBits_W32", "Apa_SizeArithBits", "MulSound"), ("SizeArithBits_W32", "Apa_SizeArithBits", "GrowSound")]
    with cf.ThreadPoolExecutor(max_workers=5) as ex:
        apa = list(ex.map(lambda o: apalache(run, o[0], o[1], o[2], timeout=900), obl))
    for a in apa:
        run.log("apalache %s/%s: %s (%.1fs)" % (a["module"], a["inv"], a["result"], a["wall_s"]))
        if a["result"] == "violated":
            raise Infra("Apalache refutes obligation %s of the specification itself: %s" % (a["inv"], a["tail"]))
    discharged = sum(1 for a in apa if a["result"] == "discharged")
    # conformance: the real memory_utils.c at 8- and 16-bit size_t, the compiled library at 64 bits, end to end
    out = run.path("sizearith.ndjson")
    lib = build_lib(run, "dbg")
    with open(out, "wb") as fo:
        for bits in (8, 16):
            exe = run.path("h_narrow%d" % bits)
            p = sh(["clang", "-O1", "-g", "-fsanitize=undefined", "-fno-sanitize-recover=all", "-DNARROW_BITS=%d" % bits, "-I", os.path.join(REPO, "src"),
                    "-I", lib["dir"], "-I", os.path.join(lib["dir"], "src"), os.path.join(HARNESS, "h_narrow.c"), "-o", exe], check=False)
            if p.returncode != 0:
                raise Infra("memory_utils.c does not compile with a %d-bit size_t: %s" % (bits, p.stdout.decode()[-1500:]))
            part = run.path("narrow%d.ndjson" % bits)
            _record_simple(run, exe, [], part, "memory_utils.c at %d-bit size_t" % bits)
            fo.write(open(part, "rb").read())
        exe = build_harness(run, lib, "h_sizearith", ["vh.c", "h_sizearith.c"])
        part = run.path("w64.ndjson")
        _record_simple(run, exe, [run.tier], part, "size arithmetic at 64 bits")
        fo.write(open(part, "rb").read())
    n = count_lines(out)
    res = tracecheck(run, "Trace_SizeArith", out, boundary=None)
    _report_rejects(run, res, "size arithmetic", lambda ln, r: "sizearith %s W=%s a=%s b=%s n=%s cap=%s lens=%s" % (ln.get("e"), ln.get("W"), ln.get("a"), ln.get("b"), ln.get("n"), ln.get("cap"), ln.get("lens")))
    kinds = set()
    with open(out) as f:
        for l in f:
            m = re.search(r'"e":"(\w+)".*?"(?:mul|ok)":(\w+)', l)
            w = re.search(r'"W":(\d+)', l)
            kinds.add((m.groups() if m else l[:20], w.group(1) if w else "", len(kinds) % 97))
    write_evidence(run, "model_checking", {
        "states": sum(m["distinct"] for m in mcs), "transitions": sum(m["generated"] for m in mcs),
        "traces_validated_against_impl": n - len(res["rejects"]),
        "samples": _sample_lines(out, 1, lambda l: '"W":8' in l and '"mul":true' in l and '"a":[0,0,15]' in l) + _sample_lines(out, 1, lambda l: '"W":64' in l and '"acalled":false' in l) + _sample_lines(out, 1, lambda l: '"grow"' in l) + _sample_lines(out, 1, lambda l: '"sersize"' in l),
        "evaluations": n, "distinct_nontrivial": len(kinds),
        "obligations": len(apa), "discharged": discharged, "checker_cmd": "apalache-mc check --config=<cfg> --length=0 --inv=<obligation> <module>.tla",
        "apalache": [{k: a[k] for k in ("module", "inv", "result", "wall_s")} for a in apa],
        "trusted_base": ["TLC", "Apalache 0.58 + z3", "tools/gen_sizearith_bits.py (the bit-linear product is checked equal to a*b by TLC at W=8)"],
        "rule": "symbolic: all 2^128 operand pairs at W=64 per obligation; exhaustive by TLC at W=4,%s8; conformance: the real memory_utils.c compiled with 8-bit size_t on all 65,536 pairs and with 16-bit size_t on a 70x70 boundary grid, the compiled library on a {2^k-1,2^k,2^k+1}^2 grid (%d^2 pairs), constructors / decoder / growth sites / serialized size with counts and lengths around 2^20..2^64 under a size-recording allocator capped at 64 MiB" % ("" if q else "6,", 0),
        "trace_lines_validated_by_TLC": res["lines"], "exhaustive": False},
        ["z3 inside Apalache answers UNKNOWN on the non-linear a*b, so the multiplication obligations are stated on a generated module in which the second operand is given by its bits and the product is a sum of a * (literal power of two); TLC checks that sum equal to a*b for all operands at W=8",
         "the model-to-code link is conformance (narrow size_t builds of the real source, boundary grids, end-to-end requests), not a proof about the compiled code",
         "an obligation Apalache does not discharge within its timeout is reported as such (discharged < obligations); the claim for it then rests on TLC at W<=8 and conformance"])
    if discharged < len(apa):
        run.notes.append("not all symbolic obligations discharged: %s" % [(a["inv"], a["result"]) for a in apa if a["result"] != "discharged"])


# ---------------------------------------------------------------------------------------------- C17 / C18
def _mc_threads(run):
    good = tlc_mc(run, "MC_Threads", "MC_Threads", workers=NCPU)
    # vacuity guards: a refcount blip on the shared tree and a static scratch variable MUST be races in the model
    for cfg in ("MC_Threads_blip", "MC_Threads_scratch"):
        st = tlc(run, "MC_Threads", cfg, workers=4)
        if st["ok"] or "NoRace" not in (st["violation"] or ""):
            raise Infra("vacuity guard: %s should violate NoRace but TLC says: %s" % (cfg, st["violation"]))
    return good


def C17(run):
    q = run.quick()
    mc = _mc_threads(run)
    out = run.path("threads.ndjson")
    open(out, "w").close()
    # (i) library globals write-protected after cbor_set_allocs, single-threaded workload
    libs = build_lib(run, "shared")
    exe = build_harness(run, libs, "h_threads", ["h_threads.c"], libs=["-ldl"])
    part = run.path("globals.ndjson")
    rc, err = run_harness(run, exe, ["globals", "1500" if q else "40000"], part, env={"LD_BIND_NOW": "1"})
    if rc != 0:
        report_violation(run, "globals-run " + err[-100:], "workload on write-protected library globals ended abnormally: " + err[-800:], {"stderr": err[-3000:]})
    open(out, "ab").write(open(part, "rb").read())
    # inventory of writable symbols (informational)
    p = sh(["nm", "-S", "--defined-only", libs["lib"]], check=False)
    writable = sorted(set(l.split()[-1] for l in p.stdout.decode().splitlines() if len(l.split()) >= 3 and l.split()[-2] in "DdBb"))
    # (ii) N threads under ThreadSanitizer
    libt = build_lib(run, "tsan")
    exet = build_harness(run, libt, "h_threads", ["h_threads.c"], extra=["-fsanitize=thread"], libs=["-ldl"])
    runs = 0
    seeds = range(run.seed, run.seed + (3 if q else 30))
    for sd in seeds:
        for T in ((2, 8, 16) if q else (2, 3, 4, 8, 12, 16)):
            part = run.path("tsan-%d-%d.ndjson" % (sd, T))
            rc, err = run_harness(run, exet, ["run", str(T), "150" if q else "3000"], part, env={"VERIF_SEED": str(sd)})
            runs += 1
            if rc != 0:
                m = re.search(r"WARNING: ThreadSanitizer: (.*)\n(?:.*\n){0,12}", err)
                report_violation(run, "tsan T=%d seed=%d %s" % (T, sd, (m.group(1) if m else "")[:80]), "ThreadSanitizer / abnormal end with %d threads (seed %d): %s" % (T, sd, err[-1500:]),
                                 {"threads": T, "seed": sd, "stderr": err[-4000:]})
            open(out, "ab").write(open(part, "rb").read())
    n = count_lines(out)
    res = tracecheck(run, "Trace_Threads", out, boundary=None)
    _report_rejects(run, res, "thread independence", lambda ln, r: "threads %s" % json.dumps(ln)[:200])
    write_evidence(run, "model_checking", {
        "states": mc["distinct"], "transitions": mc["generated"], "traces_validated_against_impl": n - len(res["rejects"]),
        "samples": _sample_lines(out, 1, lambda l: '"globals"' in l) + _sample_lines(out, 1, lambda l: '"join"' in l),
        "evaluations": runs + 1, "distinct_nontrivial": runs + 1, "tsan_runs": runs, "writable_symbols_of_libcbor": writable,
        "rule": "one case = one multi-threaded run (T in 2..16 threads x seeds; each thread a seeded workload of decode incl. error paths, serialize, serialize_alloc, copy, describe, construction, encoders on private data plus reads of one shared tree) under ThreadSanitizer with per-thread digests compared to the same workload run alone; plus one single-threaded run with libcbor.so's writable segments write-protected after cbor_set_allocs",
        "trace_lines_validated_by_TLC": res["lines"], "exhaustive": False},
        ["the schedules quantifier is discharged in the model: MC_Threads explores every interleaving of the accesses of 3 threads x 3 operations under the footprint discipline (and refutes two footprints that break it)",
         "the footprint premise is observed on the real code: no store to library-global state (mprotect, schedule-independent), allocator blocks never cross threads, TSan reports races on the observed schedules; that a library without global stores cannot reach another thread's private blocks is an argument, not a checked fact"])


def C18(run):
    q = run.quick()
    mc = _mc_threads(run)
    out = run.path("ro.ndjson")
    open(out, "w").close()
    trees = 0
    for variant in ("o0", "o2"):
        lib = build_lib(run, variant)
        exe = build_harness(run, lib, "h_ro", ["vh.c", "h_tree.c", "h_gen.c", "h_ro.c"])
        for mode in ("api", "dec"):
            part = run.path("ro-%s-%s.ndjson" % (variant, mode))
            _record_simple(run, exe, [mode, "700" if q else "50000"], part, "read-only operations on a write-protected tree (%s)" % variant)
            open(out, "ab").write(open(part, "rb").read())
    n = count_lines(out)
    res = tracecheck(run, "Trace_ReadOnly", out, boundary=None)
    def sig(ln, r):
        bad = [o["op"] for o in ln.get("ops", []) if o.get("writes")]
        return "ro ops=%s tree=%s" % (bad[:4], [x["t"] for x in ln.get("tree", [])][:10])
    _report_rejects(run, res, "read-only operation wrote to the inspected tree", sig)
    # complement: concurrent readers of one shared tree under TSan
    libt = build_lib(run, "tsan")
    exet = build_harness(run, libt, "h_threads", ["h_threads.c"], extra=["-fsanitize=thread"], libs=["-ldl"])
    tr = 0
    for T in (4, 16):
        part = run.path("tsan-ro-%d.ndjson" % T)
        rc, err = run_harness(run, exet, ["run", str(T), "100" if q else "1000"], part, env={"VERIF_SEED": str(run.seed)})
        tr += 1
        if rc != 0 and "shared" in err or rc not in (0,) and "ThreadSanitizer" in err:
            report_violation(run, "tsan-readers T=%d" % T, "concurrent readers of one tree: ThreadSanitizer report: " + err[-1500:], {"threads": T, "stderr": err[-4000:]})
    shapes, ops = set(), 0
    with open(out) as f:
        for l in f:
            d = json.loads(l)
            shapes.add(tuple((x["t"], x["nc"]) for x in d["tree"]))
            ops += len(d["ops"])
    write_evidence(run, "model_checking", {
        "states": mc["distinct"], "transitions": mc["generated"], "traces_validated_against_impl": n - len(res["rejects"]),
        "samples": _sample_lines(out, 1, lambda l: '"tag"' in l),
        "evaluations": ops, "distinct_nontrivial": len([s for s in shapes if len(s) > 1]), "trees": n, "tsan_reader_runs": tr,
        "rule": "one case = (tree, read-only operation): trees of the C03 space (construction API incl. shared sub-items, and decoded random encodings) built inside an mmap arena installed through cbor_set_allocs, write-protected before each of serialized_size, serialize (fitting and too-small buffer) and every predicate / getter that hands out no reference on the first 24 nodes; builds -O0 and -O2; distinct = tree shape",
        "trace_lines_validated_by_TLC": res["lines"], "exhaustive": False},
        ["a store into the protected arena faults deterministically (schedule-independent); the handler counts it and lets the operation finish; TLC requires the observed write footprint of every read-only operation to be empty, which is the SharedRead footprint under which MC_Threads shows concurrent readers race-free",
         "the list of read-only operations is a constant of Trace_ReadOnly (cbor_describe, cbor_copy, cbor_array_get and cbor_tag_item are not in it: they are not named by the property / hand out references)"])
