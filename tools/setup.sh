#!/bin/sh
# MANIFEST.setup_cmd: offline; parses every specification module, builds nothing that depends on /repo.
set -e
cd "$(dirname "$0")/../spec"
fail=0
for m in *.tla; do
  out=$(java -cp /opt/veriftools/tla/tla2tools.jar:/opt/veriftools/tla/CommunityModules-deps.jar tla2sany.SANY "$m" 2>&1) || true
  if echo "$out" | grep -q "Semantic errors\|\*\*\* Errors\|Parse Error\|Fatal"; then echo "SANY FAILED: $m"; echo "$out" | tail -20; fail=1; fi
done
[ $fail -eq 0 ] && echo "setup ok: $(ls *.tla | wc -l) modules parse"
exit $fail
