import sys; sys.path.insert(0,'/verif/tools')
from vlib import *
import time
run = Run("C19","quick",0)
L=int(sys.argv[1]); depth=int(sys.argv[2])
lib = build_lib(run,"dbg", None if L==2048 else L)
exe = build_harness(run, lib, "h_load", ["vh.c","h_tree.c","h_load.c"])
hexf = run.path("in.hex")
with open(hexf,"w") as f:
    f.write("81"*depth + "01\n")
    f.write("9f"*depth + "01" + "ff"*depth + "\n")
out = run.path("n.ndjson")
rc, err = run_harness(run, exe, ["hex", hexf], out)
print(rc, err[-300:], count_lines(out))
if len(sys.argv)<4:
    t=time.time()
    res = tracecheck(run, "Trace_Decoder", out, env={"VERIF_L":str(L)}, shards=1)
    print("Trace_Decoder", time.time()-t, len(res['rejects']))
t=time.time()
res = tracecheck(run, "Trace_LoadE2E", out, env={"VERIF_L":str(L),"VERIF_JUDGE":(sys.argv[3] if len(sys.argv)>3 else "all")}, shards=1)
print("E2E", time.time()-t, len(res['rejects']))
