#!/bin/bash
# runall.sh [tier] [seed]: every check, 4 at a time; prints one line per check
tier=${1:-quick}; seed=${2:-0}
export ROOT=$(cd "$(dirname "$0")/../.." && pwd)
ids=$(python3 -c "import json;print(' '.join(c['property_id'] for c in json.load(open('$ROOT/MANIFEST.json'))['checks']))")
printf "%s\n" $ids | VERIF_SEED=$seed xargs -P ${PAR:-4} -I{} sh -c 'cd $ROOT && s=$(date +%s); VERIF_SEED='$seed' ./check {} --tier '$tier' > /tmp/runall-{}.log 2>&1; rc=$?; echo "{} rc=$rc $(( $(date +%s) - s ))s $(grep -c "^VIOLATION" /tmp/runall-{}.log) violations $(grep -m1 "INFRA" /tmp/runall-{}.log | cut -c1-120)"'
