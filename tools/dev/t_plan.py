import sys, os, time
sys.path.insert(0, "/verif/tools")
from vlib import *
import props
judge = sys.argv[1]; L = None if sys.argv[2] == "-" else int(sys.argv[2]); plan = sys.argv[3:]
run = Run(judge, "quick", 1)
t0=time.time()
mcs, tot, samples = props._load_check(run, judge, lambda L_: [plan], Ls=(L,), what="dev", mc_cfgs=())
print(tot, "wall", round(time.time()-t0,1))
