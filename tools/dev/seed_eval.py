#!/usr/bin/env python3
"""seed_eval.py <ID> <k> [extra check ids...]: confirm a sub-agent's seeded change independently and run our checks on it.
 1. scratch worktree of /repo; build with tests; compile + run demo on the clean tree (must exit 0)
 2. apply patch; rebuild; ctest must pass; demo must fail
 3. ./check <ID> (quick) against the patched worktree -> expect exit 1
 4. store /verif/seeded/<ID>-<k>/{patch.diff, demo.c, notes.md, meta.json}; remove the worktree"""
import json, os, subprocess, sys, shutil, re
pid, k = sys.argv[1], sys.argv[2]
extra = [a for a in sys.argv[3:] if not a.startswith("--")]
NOSAN = "--nosan" in sys.argv
TSAN = "--tsan" in sys.argv
LIMIT = next((a.split("=")[1] for a in sys.argv if a.startswith("--limit=")), None)
ROUND6 = "--round6" in sys.argv
ROUND5 = "--round5" in sys.argv or ROUND6
ROUND4 = "--round4" in sys.argv or ROUND5
ROUND3 = "--round3" in sys.argv or ROUND4
ROUND2 = "--round2" in sys.argv or ROUND3
src = ("/tmp/seed6/%s-out" if ROUND6 else "/tmp/seed5/%s-out" if ROUND5 else "/tmp/seed4/%s-out" if ROUND4 else "/tmp/seed3/%s-out" if ROUND3 else "/tmp/seed2/%s-out" if ROUND2 else "/tmp/seed/%s-out") % pid
wt = "/tmp/seedeval-%s-%s" % (pid, k)
def sh(cmd, **kw):
    return subprocess.run(cmd, shell=True, stdout=subprocess.PIPE, stderr=subprocess.STDOUT, text=True, **kw)
sh("git -C /repo worktree remove --force %s" % wt)
r = sh("git -C /repo worktree add --detach %s HEAD" % wt); assert r.returncode == 0, r.stdout
if ROUND2 and os.path.exists("%s/notes%s.md" % (src, k)):
    head = open("%s/notes%s.md" % (src, k)).read()[:400]
    if re.search(r"SANITIZER:\s*tsan", head, re.I): TSAN = True
    if re.search(r"SANITIZER:\s*none", head, re.I): NOSAN = True
    m_ = re.search(r"LIMIT:\s*(\d+)", head)
    if m_: LIMIT = m_.group(1)
meta = {"demo_build": ("no sanitizer" if NOSAN else "tsan" if TSAN else "asan+ubsan") + ((", CBOR_MAX_STACK_SIZE=" + LIMIT) if LIMIT else ""), "property": pid, "variant": int(k), "source": "sub-agent given only the property title and statement", "ran": []}
def build():
    r = sh("cd %s && cmake -S . -B _build -G Ninja -DWITH_TESTS=ON -DCMAKE_BUILD_TYPE=RelWithDebInfo >/dev/null 2>&1 && cmake --build _build 2>&1 | tail -n 3" % wt)
    return r
def demo():
    san = "" if NOSAN else ("-fsanitize=thread -O1" if TSAN else "-fsanitize=address,undefined -fno-sanitize-recover=all")
    bdir = "_build"
    pre = ""
    if LIMIT:
        bdir = "_blim"
        pre = "cmake -S . -B _blim -G Ninja -DCBOR_MAX_STACK_SIZE=%s >/dev/null 2>&1; " % LIMIT
    cmd = ("cd %s && %s clang %s -g -I src -I %s -I %s/src %s/demo%s.c src/cbor.c src/allocators.c "
           "src/cbor/*.c src/cbor/internal/*.c -lm -lpthread -o /tmp/seedeval-demo-%s-%s 2>&1 | tail -n 5; ASAN_OPTIONS=detect_leaks=1 TSAN_OPTIONS=exitcode=66 timeout 120 /tmp/seedeval-demo-%s-%s >/dev/null 2>&1; echo rc=$?") % (wt, pre, san, bdir, bdir, src, k, pid, k, pid, k)
    r = sh(cmd)
    m = re.search(r"rc=(\d+)", r.stdout)
    return int(m.group(1)) if m else -1, r.stdout
b = build(); meta["ran"].append("clean build: " + b.stdout.strip()[-80:])
rc0, out0 = demo(); meta["demo_on_clean_tree_rc"] = rc0
r = sh("git -C %s apply %s/patch%s.diff" % (wt, src, k)); meta["patch_applies"] = r.returncode == 0
if r.returncode != 0:
    print("PATCH DOES NOT APPLY", r.stdout); sh("git -C /repo worktree remove --force %s" % wt); sys.exit(3)
b = build()
t = sh("ctest --test-dir %s/_build -j8 2>&1 | tail -n 4" % wt)
meta["ctest_with_change"] = t.stdout.strip().splitlines()[0] if t.stdout.strip() else ""
tests_pass = "100% tests passed" in t.stdout
rc1, out1 = demo(); meta["demo_with_change_rc"] = rc1
meta["confirmed"] = bool(rc0 == 0 and rc1 != 0 and tests_pass)
res = {}
for c in [pid] + extra:
    rr = sh("cd /verif && VERIF_REPO=%s ./check %s" % (wt, c))
    viol = [l for l in rr.stdout.splitlines() if l.startswith("VIOLATION")]
    what = [l.strip() for l in rr.stdout.splitlines() if l.strip().startswith("->")]
    res[c] = {"exit": rr.returncode, "violations": len(viol), "first": (what[0][:300] if what else "")}
    # replays written against a scratch worktree are not kept
    for v in viol:
        m = re.search(r"replay=(\S+)", v)
        if m and os.path.exists(m.group(1)): os.unlink(m.group(1))
meta["checks"] = res
meta["detected_by"] = [c for c, v in res.items() if v["exit"] == 1]
d = "/verif/seeded/%s-%s" % (pid, int(k) + 10 if ROUND6 else int(k) + 8 if ROUND5 else int(k) + 6 if ROUND4 else int(k) + 4 if ROUND3 else int(k) + 2 if ROUND2 else k)
os.makedirs(d, exist_ok=True)
shutil.copy("%s/patch%s.diff" % (src, k), d + "/patch.diff")
shutil.copy("%s/demo%s.c" % (src, k), d + "/demo.c")
if os.path.exists("%s/notes%s.md" % (src, k)):
    shutil.copy("%s/notes%s.md" % (src, k), d + "/notes.md")
    meta["needs_to_manifest"] = open("%s/notes%s.md" % (src, k)).read()[:1500]
json.dump(meta, open(d + "/meta.json", "w"), indent=1)
sh("git -C /repo worktree remove --force %s" % wt); sh("rm -f /tmp/seedeval-demo-%s-%s" % (pid, k))
print(pid, k, "confirmed=%s" % meta["confirmed"], "tests:", meta["ctest_with_change"], "demo clean/changed rc:", rc0, rc1, "checks:", {c: (v["exit"], v["violations"]) for c, v in res.items()})
