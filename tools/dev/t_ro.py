import sys; sys.path.insert(0,'/verif/tools')
from vlib import *
run = Run("C18","quick",0)
lib = build_lib(run, sys.argv[1])
exe = build_harness(run, lib, "h_ro", ["vh.c","h_tree.c","h_gen.c","h_ro.c"])
out = run.path("ro.ndjson")
rc, err = run_harness(run, exe, sys.argv[2:], out)
print(rc, err[-600:])
run.log("recorded %d lines" % count_lines(out))
res = tracecheck(run, "Trace_ReadOnly", out, boundary=None)
print({k:v for k,v in res.items() if k!='rejects'}, len(res['rejects']))
import json
for r in res['rejects'][:3]:
    d=json.loads(r['line']); print([o for o in d['ops'] if o['writes']], [n['t'] for n in d['tree']][:12]); print('---')
