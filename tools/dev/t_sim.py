import sys, os
sys.path.insert(0, "/verif/tools")
from vlib import *
import props
run = Run("C04", "quick", 1)
os.environ["VERIF_KEEP"]="1"
mcs, res, out, n, hist, ops, kinds = props._items_check(run, "C04", [], [["sim", sys.argv[1] if len(sys.argv)>1 else "200"]], "sim history")
print("sim", run.sim_histories, "lines", n, "hist", hist, "ops", ops, "kinds", kinds, "rejects", len(res["rejects"]), res.get("wall_s"))
for r in res["rejects"][:3]:
    print(r["at"], r["exec"][r["at"]][:600] if r["at"] < len(r["exec"]) else None)
print(run.work)
