#!/bin/bash
# usage: neutral_eval.sh <name> <patch> [checks...]  -- run the quick checks against a scratch worktree with a behaviour-preserving change applied; any VIOLATION is a candidate false alarm
name=$1; patch=$2; shift 2
checks=${@:-C01 C02 C03 C04 C05 C06 C07 C08 C09 C10 C11 C12 C13 C14 C15 C16 C17 C18 C19 C20}
wt=/tmp/mut-$name
git -C /repo worktree remove --force $wt >/dev/null 2>&1
git -C /repo worktree add --detach $wt HEAD >/dev/null 2>&1 || exit 3
git -C $wt apply -3 "$patch" >/dev/null 2>&1 || git -C $wt apply "$patch" || { echo "patch failed"; git -C /repo worktree remove --force $wt; exit 3; }
mkdir -p /tmp/neutral-logs
printf '%s\n' $checks | xargs -P ${PAR:-4} -I{} sh -c "VERIF_REPO=$wt /verif/check {} > /tmp/neutral-logs/$name-{}.log 2>&1; echo \"$name {} rc=\$? \$(grep -c '^VIOLATION' /tmp/neutral-logs/$name-{}.log) violations\""
git -C /repo worktree remove --force $wt
