import sys, os, time
sys.path.insert(0, "/verif/tools")
from vlib import *
import props
run = Run("C03", "quick", 1)
lib = build_lib(run, "dbg")
exe = build_harness(run, lib, "h_scalars", ["vh.c", "h_scalars.c"])
out = run.path("scalars.ndjson")
props._record_simple(run, exe, [sys.argv[1] if len(sys.argv) > 1 else "2000"], out, "scalar histories")
res = tracecheck(run, "Trace_Scalars", out, boundary=b'{"e":"sc","op":"New', env={"VERIF_JUDGE": sys.argv[2] if len(sys.argv) > 2 else "all"})
print("lines", res["lines"], "rejects", len(res["rejects"]))
for r in res["rejects"][:3]: print(r["at"], r["line"][:400])
