#!/bin/bash
# usage: mut.sh <name> "<sed-expr>" <file> <check> [<check>...]   (dev tool: run checks against a mutated scratch worktree)
name=$1; expr=$2; file=$3; shift 3
wt=/tmp/mut-$name
git -C /repo worktree remove --force $wt >/dev/null 2>&1
git -C /repo worktree add --detach $wt HEAD >/dev/null 2>&1 || exit 3
if [ -f "$expr" ]; then git -C $wt apply "$expr" || { echo "patch failed"; exit 3; }
else sed -i "$expr" $wt/$file; fi
git -C $wt diff --stat | tail -n 1
for c in "$@"; do
  VERIF_REPO=$wt /verif/check $c > /tmp/mut-$name-$c.log 2>&1; rc=$?
  echo "$name $c rc=$rc $(grep -c '^VIOLATION' /tmp/mut-$name-$c.log) violations; $(grep -m1 '^VIOLATION\|INFRA' /tmp/mut-$name-$c.log | cut -c1-150)"
done
git -C /repo worktree remove --force $wt
