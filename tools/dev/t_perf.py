import sys; sys.path.insert(0,'/verif/tools')
from vlib import *
import time
run = Run("C08","quick",0)
lib = build_lib(run,"dbg")
exe = build_harness(run, lib, "h_wire", ["vh.c","h_wire.c"])
out = run.path("w.ndjson")
run_harness(run, exe, ["quick"], out)
for n in (1000, 4000, 16000):
    sub = run.path("w%d.ndjson" % n)
    with open(out) as f, open(sub,"w") as g:
        for i,l in enumerate(f):
            if i>=n: break
            g.write(l)
    t=time.time()
    res = tracecheck(run, "Trace_Wire", sub, boundary=None, shards=1)
    print(n, time.time()-t, len(res['rejects']))
