import sys; sys.path.insert(0,'/verif/tools')
from vlib import *
# usage: t_onetrace.py <module> <trace> [KEY=VAL...]  -> runs TLC once, prints depth and tail of output
run = Run("dbg","quick",0)
env={"TRACE":sys.argv[2]}
for kv in sys.argv[3:]:
    k,v=kv.split("=",1); env[k]=v
st = tlc(run, sys.argv[1], None, workers=1, env=env)
print("depth", st["depth"], "lines", count_lines(sys.argv[2]))
print(st["out"][-int(os.environ.get("TAILN","1500")):])
