import sys; sys.path.insert(0,'/verif/tools')
from vlib import *
run = Run("C09","quick",0)
lib = build_lib(run,"dbg")
exe = build_harness(run, lib, "h_stream", ["vh.c","h_gen.c","h_stream.c"])
out = run.path("s.ndjson")
rc, err = run_harness(run, exe, sys.argv[1:], out)
print(rc, err[-600:])
run.log("recorded %d lines" % count_lines(out))
res = tracecheck(run, "Trace_Stream", out, boundary=b'{"e":"stream"')
run.log("validated")
print({k:v for k,v in res.items() if k!='rejects'}, len(res['rejects']))
for r in res['rejects'][:3]:
    print("\n".join(r['exec'][max(0,r['at']-3):r['at']+1])[:2000]); print('---')
