import sys; sys.path.insert(0,'/verif/tools')
from vlib import *
run = Run("C03","quick",0)
lib = build_lib(run,"dbg")
exe = build_harness(run, lib, "h_ser", ["vh.c","h_tree.c","h_gen.c","h_ser.c"])
out = run.path("ser.ndjson")
judge=sys.argv[1]
rc, err = run_harness(run, exe, sys.argv[2:], out)
print(rc, err[-800:])
run.log("recorded %d lines" % count_lines(out))
res = tracecheck(run, "Trace_Serialize", out, boundary=b'{"e":"ser"', env={"VERIF_JUDGE":judge})
run.log("validated")
print({k:v for k,v in res.items() if k!='rejects'}, len(res['rejects']))
for r in res['rejects'][:3]:
    print("\n".join(r['exec'][:r['at']+1])[:3000]); print('---')
