import sys, os, time
sys.path.insert(0, "/verif/tools")
from vlib import *
import props
judge = sys.argv[1]; flags = sys.argv[2].split(",") if sys.argv[2] else []; mode = sys.argv[3]; n = sys.argv[4]
run = Run(judge, "quick", 1)
t0=time.time()
mc, res, out, n, cases, shapes, nontriv = props._ser_check(run, judge, flags, [(mode, n)], "dev", None)
print("lines", n, "cases", cases, "rejects", len(res["rejects"]), "wall", round(time.time()-t0,1))
for r in res["rejects"][:3]: print(r["at"], r["line"][:300])
print(os.path.getsize(out))
