#!/usr/bin/env python3
"""Regenerates /verif/MANIFEST.json from the table below (single source of truth for the interface)."""
import json, os, sys
V = os.path.dirname(os.path.dirname(os.path.abspath(__file__)))
ALL = ["C%02d" % i for i in range(1, 21)]

# id: (design_ref, technique, level text, level note)
CHECKS = {
 "C01": ("6/C01", "TLA+ decoder machine CborDecoder + grammar CborGrammar; TLC model check (MC_Decoder incl. liveness); TLC trace validation of hooked cbor_load executions (Trace_Decoder, Trace_LoadE2E) under ASan/UBSan/assert/watchdog",
         "TLC explores every head string up to 5 tokens (with end-of-input anywhere and one refused allocation) and shows the stack machine always terminates in one of exactly two outcomes with an empty stack, reading only inside the buffer. Every real cbor_load execution over the input space (token strings the decoder keeps reading, all byte strings <= 2 (<= 4 thorough), random items and their single-edit neighbours, each in an exactly-sized heap block) is stepped through that machine by TLC line by line; the follow-up operations (describe, size, serialize, copy, release) run on every returned tree. Stray accesses, UB, assertion failures and hangs are observed by the sanitizer build and a watchdog and reported with the input.",
         "Trusted: TLC; the hook (add-only, guarded) and recorder log raw observations; ASan/UBSan/CBOR_ASSERT for physical memory safety (a TLA+ state cannot see a stray load). Bounded: see evidence rule."),
 "C02": ("6/C02", "TLA+ CborDecoder (stack machine) vs CborGrammar (declarative RFC 8949 reference) agreement by TLC (MC_Decoder, L=1,2,3); TLC trace validation of hooked cbor_load executions incl. returned tree, refcounts, read (Trace_Decoder, Trace_LoadE2E)",
         "TLC shows that the stack algorithm and an independent recursive-descent reference agree on accept/reject, tree, bytes read and error for every head string within the bound (3.0M states). Each real execution is then replayed by TLC through the machine with the projected stack compared after every loop iteration, and its result (tree through public getters after the input block was overwritten and freed, every refcount, bytes read) is judged against machine and grammar.",
         "Trusted: TLC, recorder. The reference grammar is transcribed from RFC 8949 and the property text; scalar values/string contents are restored in conformance from the logged bytes. Bounded input space: see evidence rule."),
 "C03": ("6/C03", "TLA+ CborEncode.Encode evaluated by TLC on every logged tree (Trace_Serialize); TLC model check MC_RoundTrip: Encode vs the reference decoder on a bounded tree space",
         "TLC checks on a bounded tree space (all types and stored widths, boundary values, chunked strings, depth 2) that the specified encoding is decoded by the independently specified reference decoder into an equal tree and re-encodes identically. For every tree obtained from the real construction API or decoder, TLC computes Encode(tree) and requires the real serializer's bytes to be identical, the reload to consume all bytes and give an equal tree (NaN = NaN), and re-serialization to be identical.",
         "Trusted: TLC; recorder logs trees through public getters. Tree space: seeded random construction histories and decoded random encodings (see evidence rule)."),
 "C04": ("6/C04", "TLA+ CborItems (reference-counted object graph + ghost client reference bag), TLC exhaustive model check per operation family (MC_Items_*), TLC trace validation of recorded API histories with state comparison after every call (Trace_Items)",
         "TLC explores every rule-following history over pools of 3-4 items for each operation family (arrays incl. move/set/replace/get, maps, tags incl. the documented set-item transfer, chunked strings, copy) and shows refcount = client references + in-edges, no touch after release, single release, and no leak once the client holds nothing. Seeded random histories over the real API (incl. shared sub-items, copy, load) are then replayed by TLC through the same actions: after every call the refcount of every reachable item, container contents and the client's bag must equal the spec state; at the end the allocator must hold nothing.",
         "Trusted: TLC, recorder (ids = allocator serial numbers, state through public getters). Preconditions are re-checked by the spec. ASan observes use after release."),
 "C05": ("6/C05", "TLA+ CborGrammar.Admissible (code, position) oracle incl. the permitted lazy report; TLC model check; TLC trace validation of failing cbor_load executions with pre-filled result struct",
         "TLC checks machine = grammar on error code and position for all bounded head strings (incl. nesting limit and refused allocation). Every failing real execution is judged by TLC: NULL, nothing left allocated, all three result fields written, (code, position) in the admissible set computed by the grammar from the logged heads; eager and lazy reports of an item opened inside a chunked string are both accepted.",
         "Trusted: TLC, recorder (result struct pre-filled with 0xAB; raw field values logged). Bounded input space."),
 "C06": ("6/C06", "TLA+ CborAlloc transaction pattern with fault schedules, TLC exhaustive (MC_AllocFault); exhaustive single-fault and fail-stop enumeration per scenario on the real code, each case judged by TLC from the allocator event log and argument snapshots (Trace_Alloc)",
         "TLC checks the serve-or-refuse / unwind / report pattern for every operation length, refused request and schedule. On the real library every scenario (load of each corpus input, copy and serialize_alloc of each corpus tree, every builder, push/set/map add/add chunk at each growth step, build_tag) is first run fault-free to count its N requests and then 2N times (refuse k; refuse from k); for each run TLC folds the logged allocator events and requires: documented failure channel, only self-obtained blocks released or moved and none left, argument trees and reference counts identical before and after.",
         "Trusted: TLC, the fault-injecting allocator installed via cbor_set_allocs, recorder. Crashes are observed by ASan/UBSan. Scenario set: see evidence rule."),
 "C07": ("6/C07", "TLA+ fixed-buffer contract (CborEncode.SerializeRet) judged by TLC on every recorded cbor_serialize / cbor_serialize_alloc / cbor_encode_* call (Trace_Serialize, Trace_EncDec); sentinel frame + ASan exact-size buffers",
         "For every tree and every buffer size 0..size+2, and every encoder x boundary value x buffer size 0..10, TLC judges the logged return value against the contract (size if it fits, else 0), that nothing outside the first n bytes (resp. beyond the returned count) was modified, and that serialize_alloc hands out a block of exactly the computed size holding exactly those bytes.",
         "Trusted: TLC; writes are observed by a two-sentinel frame and by ASan red zones. Relative clauses (agreement) are judged against the library's own size, so that a wrong encoding (C03) is not reported here."),
 "C08": ("6/C08", "TLA+ requirement CborWire.StreamDecode; TLC model check (MC_Wire) + TLC trace validation of recorded cbor_stream_decode calls (Trace_Wire)",
         "TLC checks the wire requirement for internal consistency on 27k (head, window) states (two independent transcriptions of the RFC table agree; a legal `required` always exists; FINISHED depends only on the bytes read). Every recorded call of the real cbor_stream_decode (all 256 initial bytes x argument classes x window lengths, exact-size ASan buffers) is then validated line by line by TLC against that requirement.",
         "Trusted: TLC, the ndjson recorder in harness/h_wire.c (logs raw inputs and outputs only), ASan/UBSan for out-of-window reads. Bounded input space: see evidence rule."),
 "C09": ("6/C09", "TLA+ StreamClient (incremental client over CborWire), TLC exhaustive over all fragmentations incl. liveness (MC_Stream); TLC trace validation of recorded client runs around the real decoder (Trace_Stream)",
         "TLC explores every stream of up to 3 heads (13-head alphabet, plus truncations) under every possible cutting into fragments and both extreme legal `required` answers: delivered events are always a prefix of the one-shot tokenisation, every wait is satisfiable, and with fairness a stream ending on an item boundary is delivered completely. Recorded runs of the documented client around the real cbor_stream_decode (single cuts at every offset, byte-at-a-time, random cuts; exactly-sized windows) are replayed through the same actions, each delivered event being compared with the tokenisation computed by TLC from the whole stream.",
         "Trusted: TLC, recorder. The per-call function is tied to CborWire by C08."),
 "C10": ("6/C10", "TLA+ CborEncode.EncoderBytes (one operator per public encoder) vs CborWire by TLC (MC_EncDec); TLC trace validation of every recorded encode+decode pair (Trace_EncDec)",
         "TLC checks on the bounded domain that the demanded encoder output is the shortest/fixed-width big-endian RFC head and decodes back to the same kind and value. Every real (encoder, value) pair - exhaustive for 8-bit domains, 16-bit exhaustive in thorough, 2^k-1/2^k/2^k+1 and width boundaries for 32/64-bit, all halves - is judged by TLC: bytes identical to the requirement, decoder fires the matching callback with the identical value and reads exactly those bytes.",
         "Trusted: TLC, recorder."),
 "C11": ("6/C11", "TLC trace validation of recorded cbor_copy cases (Trace_Serialize, C11 clauses): shape, refcounts, address disjointness, byte equality, source unchanged, independence under mutation/release; ASan",
         "For every tree of the C03 space (incl. shared sub-items, empty containers, zero-chunk strings, 64-bit integers) TLC judges the logged copy: same flat shape and content, every refcount 1, no node or buffer address in common, same serialization, source contents and refcounts unchanged; the copy is then modified and released and the source re-serialized, and a copy of a copy must survive the release of the first.",
         "Trusted: TLC, recorder; use-after-free through sharing is observed by ASan."),
 "C12": ("6/C12", "TLA+ CborItems containers (capacity, growth, bounded/unbounded sequence semantics), TLC model check (MC_Items arr/map/chunk), TLC trace validation of container histories and of growth runs (Trace_Items, C12 clauses)",
         "TLC checks on the small pool that definite containers refuse exactly at capacity, out-of-range indexes are refused without change, size never exceeds capacity and growth is logarithmic. Real histories of push/set/replace/get (indexes 0..size+2), map add and add chunk on capacities 0..8 are replayed step by step against the abstract sequence; insertion runs up to thousands of elements are judged on logged capacity changes and allocator-counted reallocations.",
         "Trusted: TLC, recorder, allocator counters; the capacity after a growth step is read from the real container (any legal geometric policy is accepted). ASan observes out-of-bounds."),
 "C13": ("6/C13", "TLA+ CborAllocEvents discipline folded by TLC over the logged allocator event stream of real workloads (Trace_Alloc); link-time interposition of libc allocator symbols; arena backing without libc",
         "Every library operation of the workloads (decoding, describing, size, serialization, copy, release, streaming decoder, encoders, construction API, ownership histories) is bracketed in the allocator log. TLC tracks the live-block set from the events alone and requires: each block handed to realloc/free is live and from the installed allocator, released once, nothing live at quiescence, no event inside pure operations, and no direct libc allocator call during a library operation.",
         "Trusted: TLC, the instrumenting allocator and the --wrap interposition (observation devices). Two backings: libc with always-moving realloc under ASan, and an mmap arena where a stray libc free aborts."),
 "C14": ("6/C14", "TLA+ reference decoder CborLoadRef (tokenisation + grammar) evaluated by TLC on logged bytes; TLC model check of the machine stopping at the first item; trace validation (Trace_Sequence)",
         "For every (x, y) pair and every concatenation recorded from the real cbor_load, TLC computes from the logged bytes what x denotes and requires x and x.y to give that tree and read = |x|, and the cbor_sequence loop to split a concatenation into exactly its items ending at the buffer end.",
         "Trusted: TLC, recorder. x ranges over seeded random well-formed items; y over empty, single bytes (all 256 for the first 12 x), items, garbage, structural bytes."),
 "C15": ("6/C15", "TLA+ CborFloat (IEEE-754 fields as integers; requirement + transcription of cbor_encode_half with explicit shift/narrowing checks); TLC model check MC_Float; TLC trace validation of every recorded float case (Trace_Float); UBSan",
         "TLC checks for all 65,536 halves that the transcribed half-encoding algorithm inverts half decoding (NaN -> 0x7e00) and meets the requirement, and for every exponent x boundary mantissa x sign that it is total (shift counts in range, narrowings exact). Every real bit pattern case (all halves; singles/doubles per exponent class, strided and random; all 2^32 singles in thorough) is judged by TLC against CborFloat through the streaming decoder, cbor_load + getters, the encoders, cbor_serialize and a rebuilt item.",
         "Trusted: TLC, recorder (logs raw bit patterns), UBSan for undefined shifts/casts. The exhaustive 2^32 sweep uses the class rule validated by TLC on the strided subset."),
 "C16": ("6/C16", "TLA+ Utf8 (RFC 3629 ABNF + independent numeric definition, exact 14-class byte partition) checked by TLC (MC_Utf8); TLC trace validation of class-sequence and random-text records (Trace_Utf8)",
         "TLC checks the ABNF transcription against a numeric definition (scalar decoding, no overlong, no surrogates, <= U+10FFFF) on every sequence of class representatives and proves the partition exact. The harness executes EVERY byte sequence up to 3 bytes (4 in thorough) through set_handle / build_stringn / cbor_load, logging per class sequence the representative's count and whether all members agreed; TLC judges each against Utf8.Reported, plus random valid texts with a fault injected at every position on concrete bytes.",
         "Trusted: TLC, recorder; class-uniformity flag computed by the harness (code-vs-code), anchored by TLC's verdict on the representative and the partition-exactness invariant."),
 "C19": ("6/C19", "TLA+ CborDecoder/CborGrammar parametric in L; TLC model check for L=1,2,3; libcbor built through CMake with CBOR_MAX_STACK_SIZE in {1,2,3,(8,64,)2048}; TLC trace validation per L; small fixed native stack run",
         "TLC shows for L=1,2,3 and all bounded head strings that a frame push is refused exactly at depth L and reported as MEMERROR just past that head, and that empty definite containers never open a level. For each configured L the real library is built with that option and its executions on nesting families (every container kind, depths L-1, L, L+1, 4L) are validated by TLC against the spec instantiated with the same L; the whole pipeline is also run on a thread with a 64 KiB + 2 KiB*L stack.",
         "Trusted: TLC, recorder; native stack consumption is observed (SIGSEGV on an alternate stack), the spec bounds recursion depth only. Deep executions (L >= 64) are judged end to end by the grammar rather than stepped through the machine."),
 "C20": ("6/C20", "TLA+ SizeArith (C arithmetic modulo 2^W vs unbounded integers): TLC exhaustive at W=4,6,8; Apalache symbolic at W=64 (all 2^128 operand pairs) incl. a generated bit-linear module for the products; TLC trace validation of the real memory_utils.c compiled at 8/16-bit size_t, of the 64-bit library on boundary grids and of end-to-end requests (Trace_SizeArith)",
         "Apalache discharges, for all operands at W=64, that an accepted product or sum never wraps, that the signalling add is exact-or-0 with 0 absorbing, and that growth requests are exact; TLC checks the same text exhaustively at small W and that the bit-linear product used for Apalache equals a*b. The real source of memory_utils.c is compiled with an 8-bit size_t (all 65,536 pairs) and a 16-bit one (grid) and every result is judged by TLC with exact byte arithmetic, as are the compiled 64-bit functions on a {2^k-1,2^k,2^k+1} grid and constructor / decoder / growth / serialized-size calls with counts and lengths around 2^20..2^64 under a size-recording allocator.",
         "Trusted: TLC, Apalache+z3, the generator of the bit-linear module. The symbolic result is about the model; the model-to-code link is conformance, not proof. Evidence reports obligations/discharged as measured."),
}
NOT_YET = "check not built yet in this round (machinery in progress); no claim made"

def main():
    checks = []
    for pid in ALL:
        if pid not in CHECKS:
            continue
        ref, tech, text, note = CHECKS[pid]
        checks.append({
            "property_id": pid,
            "quick_cmd": "./check %s --tier quick" % pid,
            "thorough_cmd": "./check %s --tier thorough" % pid,
            "evidence_file": "/verif/evidence/%s.json" % pid,
            "replay_cmd_template": "./check %s --replay {path}" % pid,
            "engine": "tlc",
            "level_claimed": {"category": "model_checking", "text": text, "design_ref": "DESIGN.md section " + ref},
            "level_note": note,
            "technique": tech})
    m = {"version": 1,
         "setup_cmd": "./tools/setup.sh",
         "hooks": {"guard": "LIBCBOR_VERIF",
                   "enable": "checks build /repo's working tree with its own CMake and append -DLIBCBOR_VERIF to CMAKE_C_FLAGS (tools/vlib.py:build_lib)",
                   "baseline_off_cmd": "cmake --build /repo/_build && ctest --test-dir /repo/_build -j8 --timeout 900",
                   "source_commits": HOOK_COMMITS, "add_only": True},
         "engines": [{"name": "tlc", "path": "/verif/spec", "serves_properties": sorted(CHECKS),
                      "kind_free_text": "explicit TLA+ specification (spec/*.tla), TLC model checking of MC_* instances, TLC trace validation (Trace_* specs) of ndjson traces recorded from libcbor built from /repo, and replay of TLC-generated behaviours into the real code"}],
         "checks": checks,
         "notes": "All verdicts come from ./check <ID>; exit 2 = infrastructure failure, never a verdict. Known findings: KNOWN_FINDINGS.txt.",
         "not_applicable": [{"property_id": p, "reason": NA.get(p, NOT_YET)} for p in ALL if p not in CHECKS]}
    json.dump(m, open(os.path.join(V, "MANIFEST.json"), "w"), indent=1)
    print("MANIFEST.json: %d checks, %d not_applicable" % (len(checks), len(m["not_applicable"])))

HOOK_COMMITS = ["1d83805"]
NA = {}
if __name__ == "__main__":
    main()
