#!/usr/bin/env python3
"""Regenerates /verif/MANIFEST.json from the table below (single source of truth for the interface)."""
import json, os, sys
V = os.path.dirname(os.path.dirname(os.path.abspath(__file__)))
ALL = ["C%02d" % i for i in range(1, 21)]

# id: (design_ref, technique, level text, level note)
CHECKS = {
 "C08": ("6/C08", "TLA+ requirement CborWire.StreamDecode; TLC model check (MC_Wire) + TLC trace validation of recorded cbor_stream_decode calls (Trace_Wire)",
         "TLC checks the wire requirement for internal consistency on 27k (head, window) states (two independent transcriptions of the RFC table agree; a legal `required` always exists; FINISHED depends only on the bytes read). Every recorded call of the real cbor_stream_decode (all 256 initial bytes x argument classes x window lengths, exact-size ASan buffers) is then validated line by line by TLC against that requirement.",
         "Trusted: TLC, the ndjson recorder in harness/h_wire.c (logs raw inputs and outputs only), ASan/UBSan for out-of-window reads. Bounded input space: see evidence rule."),
}
NOT_YET = "check not built yet in this round (machinery in progress); no claim made"

def main():
    checks = []
    for pid in ALL:
        if pid not in CHECKS:
            continue
        ref, tech, text, note = CHECKS[pid]
        checks.append({
            "property_id": pid,
            "quick_cmd": "./check %s --tier quick" % pid,
            "thorough_cmd": "./check %s --tier thorough" % pid,
            "evidence_file": "/verif/evidence/%s.json" % pid,
            "replay_cmd_template": "./check %s --replay {path}" % pid,
            "engine": "tlc",
            "level_claimed": {"category": "model_checking", "text": text, "design_ref": "DESIGN.md section " + ref},
            "level_note": note,
            "technique": tech})
    m = {"version": 1,
         "setup_cmd": "./tools/setup.sh",
         "hooks": {"guard": "LIBCBOR_VERIF",
                   "enable": "checks build /repo's working tree with its own CMake and append -DLIBCBOR_VERIF to CMAKE_C_FLAGS (tools/vlib.py:build_lib)",
                   "baseline_off_cmd": "cmake --build /repo/_build && ctest --test-dir /repo/_build -j8 --timeout 900",
                   "source_commits": HOOK_COMMITS, "add_only": True},
         "engines": [{"name": "tlc", "path": "/verif/spec", "serves_properties": sorted(CHECKS),
                      "kind_free_text": "explicit TLA+ specification (spec/*.tla), TLC model checking of MC_* instances, TLC trace validation (Trace_* specs) of ndjson traces recorded from libcbor built from /repo, and replay of TLC-generated behaviours into the real code"}],
         "checks": checks,
         "notes": "All verdicts come from ./check <ID>; exit 2 = infrastructure failure, never a verdict. Known findings: KNOWN_FINDINGS.txt.",
         "not_applicable": [{"property_id": p, "reason": NA.get(p, NOT_YET)} for p in ALL if p not in CHECKS]}
    json.dump(m, open(os.path.join(V, "MANIFEST.json"), "w"), indent=1)
    print("MANIFEST.json: %d checks, %d not_applicable" % (len(checks), len(m["not_applicable"])))

HOOK_COMMITS = []
NA = {}
if __name__ == "__main__":
    main()
