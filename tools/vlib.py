"""Shared machinery for /verif/check: scratch dirs, libcbor builds from /repo's working tree,
harness builds, TLC runs (model checking and trace validation), evidence, known findings."""
import atexit, hashlib, json, os, re, shutil, signal, subprocess, sys, tempfile, time

VERIF = os.path.dirname(os.path.dirname(os.path.abspath(__file__)))
REPO = os.environ.get("VERIF_REPO", "/repo")
SPEC = os.path.join(VERIF, "spec")
HARNESS = os.path.join(VERIF, "harness")
TLA_CP = "/opt/veriftools/tla/tla2tools.jar:/opt/veriftools/tla/CommunityModules-deps.jar"
GUARD = "LIBCBOR_VERIF"
NCPU = os.cpu_count() or 4


class Infra(Exception):
    """Infrastructure failure (exit 2) - never reported as a violation."""


class Run:
    def __init__(self, pid, tier, seed):
        self.pid, self.tier, self.seed = pid, tier, seed
        self.t0 = time.time()
        self.work = tempfile.mkdtemp(prefix="vf-%s-" % pid)
        atexit.register(self.cleanup)
        self.tlc_runs = []      # stats of every TLC run
        self.notes = []
        self.libs = {}
        self.violations = []    # (what, replay path)
        self.known = []

    def cleanup(self):
        if os.environ.get("VERIF_KEEP"):
            sys.stderr.write("[keep] %s\n" % self.work)
            return
        shutil.rmtree(self.work, ignore_errors=True)

    def path(self, *a):
        p = os.path.join(self.work, *a)
        os.makedirs(os.path.dirname(p), exist_ok=True)
        return p

    def quick(self):
        return self.tier == "quick"

    def log(self, msg):
        sys.stderr.write("[%s %6.1fs] %s\n" % (self.pid, time.time() - self.t0, msg))
        sys.stderr.flush()


def sh(cmd, cwd=None, env=None, timeout=None, check=True, stdout=subprocess.PIPE, stderr=subprocess.STDOUT, input=None):
    e = dict(os.environ)
    if env:
        e.update(env)
    try:
        p = subprocess.run(cmd, cwd=cwd, env=e, timeout=timeout, stdout=stdout, stderr=stderr, input=input)
    except subprocess.TimeoutExpired as ex:
        raise Infra("timeout after %ss: %s" % (timeout, " ".join(map(str, cmd))[:200]))
    if check and p.returncode != 0:
        out = p.stdout.decode("utf-8", "replace")[-3000:] if p.stdout else ""
        raise Infra("command failed (%d): %s\n%s" % (p.returncode, " ".join(map(str, cmd))[:300], out))
    return p


# ----------------------------------------------------------------------------------------------
# libcbor builds. Always from REPO's *current working tree* through the repository's own CMake.
# ----------------------------------------------------------------------------------------------
VARIANTS = {
    # name: (build type, SANITIZE, extra C flags, extra cmake args)
    "dbg": ("Debug", "ON", "-fno-sanitize-recover=all -fno-omit-frame-pointer", []),
    "o2": ("RelWithDebInfo", "OFF", "", []),
    "o2asan": ("RelWithDebInfo", "OFF", "-fsanitize=address,undefined -fno-sanitize-recover=all -fno-omit-frame-pointer", []),
    "tsan": ("RelWithDebInfo", "OFF", "-fsanitize=thread -O1", []),
    "shared": ("RelWithDebInfo", "OFF", "", ["-DBUILD_SHARED_LIBS=ON"]),
    "o0": ("Debug", "OFF", "", []),
}


def build_lib(run, variant, L=None, hooks=True):
    key = (variant, L, hooks)
    if key in run.libs:
        return run.libs[key]
    bt, san, cflags, extra = VARIANTS[variant]
    bdir = run.path("lib-%s-%s%s" % (variant, L or "dflt", "" if hooks else "-nohook"), "x")[:-2]
    flags = cflags + ((" -D%s" % GUARD) if hooks else "")
    cmd = ["cmake", "-S", REPO, "-B", bdir, "-G", "Ninja", "-DCMAKE_BUILD_TYPE=" + bt, "-DSANITIZE=" + san,
           "-DWITH_TESTS=OFF", "-DWITH_EXAMPLES=OFF", "-DCMAKE_C_COMPILER=clang", "-DCMAKE_CXX_COMPILER=clang++",
           "-DCMAKE_INTERPROCEDURAL_OPTIMIZATION=OFF", "-DCMAKE_C_FLAGS=" + flags.strip(), "-Wno-dev",
           "-Wno-deprecated"] + extra
    if L is not None:
        cmd.append("-DCBOR_MAX_STACK_SIZE=%d" % L)
    sh(cmd, timeout=300)
    p = sh(["ninja", "-C", bdir, "cbor"], timeout=600, check=False)
    if p.returncode != 0:
        raise Infra("libcbor (%s) does not build from %s:\n%s" % (variant, REPO, p.stdout.decode("utf-8", "replace")[-3000:]))
    lib = os.path.join(bdir, "src", "libcbor.so" if variant == "shared" else "libcbor.a")
    info = {"dir": bdir, "lib": lib, "inc": [os.path.join(REPO, "src"), os.path.join(bdir, "src"), bdir],
            "cflags": flags, "variant": variant, "L": L,
            "opt": "-O0 -g" if bt == "Debug" else "-O2 -g",
            "san": ("-fsanitize=undefined -fsanitize=address -fsanitize=bounds -fsanitize=alignment " if san == "ON" else "")}
    run.libs[key] = info
    return info


def build_harness(run, lib, name, sources, extra=None, cxx=False, libs=None):
    exe = os.path.join(lib["dir"], name)
    cc = "clang++" if cxx else "clang"
    cmd = [cc] + (["-std=c++17"] if cxx else ["-std=gnu11"]) + lib["opt"].split() + lib["san"].split() + lib["cflags"].split()
    cmd += ["-Wall", "-Wno-unused-function", "-I", HARNESS]
    for i in lib["inc"]:
        cmd += ["-I", i]
    cmd += [os.path.join(HARNESS, s) for s in sources]
    cmd += (extra or [])
    cmd += ["-o", exe, lib["lib"], "-lm", "-lpthread"] + (libs or [])
    if lib["variant"] == "shared":
        cmd += ["-Wl,-rpath," + os.path.dirname(lib["lib"]), "-Wl,-z,now"]
    p = sh(cmd, timeout=600, check=False)
    if p.returncode != 0:
        raise Infra("harness %s does not build:\n%s" % (name, p.stdout.decode("utf-8", "replace")[-4000:]))
    return exe


SAN_ENV = {"ASAN_OPTIONS": "abort_on_error=0:detect_leaks=1:allocator_may_return_null=1:exitcode=99:max_allocation_size_mb=4096:quarantine_size_mb=64",
           "UBSAN_OPTIONS": "print_stacktrace=1:halt_on_error=1:exitcode=98",
           "TSAN_OPTIONS": "exitcode=97:halt_on_error=1"}


# ----------------------------------------------------------------------------------------------
# TLC
# ----------------------------------------------------------------------------------------------
_re_states = re.compile(r"(\d+) states generated, (\d+) distinct states found, (\d+) states left on queue")
_re_depth = re.compile(r"The depth of the complete state graph search is (\d+)")
_re_sany = re.compile(r"(Parsing or semantic analysis failed|\*\*\* Errors:|Could not find|Unknown operator|Fatal error)", re.I)


import threading
_tlc_lock = threading.Lock()
_tlc_seq = 0


def tlc(run, module, cfg=None, workers=None, timeout=900, env=None, mem="8g", extra=None, tag=None,
        deadlock=False, simulate=None, queue_dfs=False, coverage=False):
    """Run TLC on spec/<module>.tla with spec/<cfg or module>.cfg. Returns a dict of stats.
    st['ok'] : model checking completed without error. st['violation'] : text of the first error."""
    tag = tag or module
    with _tlc_lock:
        global _tlc_seq
        _tlc_seq += 1
        n = _tlc_seq
    meta = run.path("tlc-%d-%s" % (n, tag), "meta", "x")[:-2]
    tmp = run.path("tlc-%d-%s" % (n, tag), "tmp", "x")[:-2]
    logf = run.path("tlc-%d-%s" % (n, tag), "out.log")
    jvm = ["java", "-XX:+UseParallelGC", "-Xmx" + mem, "-Xss512m", "-Djava.io.tmpdir=" + tmp]
    if queue_dfs:
        jvm.append("-Dtlc2.tool.queue.IStateQueue=StateDeque")
    cmd = jvm + ["-cp", TLA_CP, "tlc2.TLC", "-workers", str(workers or "auto"), "-metadir", meta,
                 "-config", os.path.join(SPEC, (cfg or module) + ".cfg"), "-noGenerateSpecTE"]
    if not deadlock:
        cmd.append("-deadlock")     # -deadlock DISABLES deadlock checking
    if simulate:
        cmd += ["-simulate", simulate]
    if coverage:
        cmd += ["-coverage", "1"]
    cmd += (extra or [])
    cmd.append(os.path.join(SPEC, module + ".tla"))
    t0 = time.time()
    e = dict(os.environ)
    e.update(env or {})
    with open(logf, "wb") as lf:
        try:
            p = subprocess.run(cmd, cwd=SPEC, env=e, stdout=lf, stderr=subprocess.STDOUT, timeout=timeout)
            rc = p.returncode
        except subprocess.TimeoutExpired:
            rc = -9
    out = open(logf, "r", errors="replace").read()
    st = {"module": module, "cfg": cfg or module, "rc": rc, "wall_s": round(time.time() - t0, 2), "log": logf,
          "generated": 0, "distinct": 0, "depth": 0, "ok": False, "violation": None, "out": out, "tag": tag}
    ms = _re_states.findall(out)
    if ms:
        st["generated"], st["distinct"] = int(ms[-1][0]), int(ms[-1][1])
    md = _re_depth.findall(out)
    if md:
        st["depth"] = int(md[-1])
    if rc == -9:
        raise Infra("TLC timeout (%ss) on %s/%s; log %s" % (timeout, module, cfg or module, logf))
    if _re_sany.search(out) and "Model checking completed" not in out and "Error: Invariant" not in out \
            and "is violated" not in out and "Deadlock reached" not in out and "Finished computing initial states" not in out:
        raise Infra("TLC could not load %s: %s" % (module, out[-2500:]))
    st["ok"] = (rc == 0 and "No error has been found" in out) or (simulate is not None and rc == 0)
    if not st["ok"]:
        m = re.search(r"Error: (.*)", out)
        st["violation"] = m.group(1) if m else ("rc=%d" % rc)
    with _tlc_lock:
        run.tlc_runs.append({k: st[k] for k in ("module", "cfg", "tag", "rc", "wall_s", "generated", "distinct", "depth", "ok")})
    shutil.rmtree(meta, ignore_errors=True)
    shutil.rmtree(tmp, ignore_errors=True)
    return st


def tlc_mc(run, module, cfg=None, **kw):
    """Design-level model check: must complete without error, else infrastructure failure
    (a spec that violates its own invariants is our bug, not a property violation of libcbor)."""
    st = tlc(run, module, cfg, **kw)
    if not st["ok"]:
        raise Infra("model check %s/%s failed: %s\n%s" % (module, cfg or module, st["violation"], st["out"][-3000:]))
    run.log("TLC %s/%s: %d generated, %d distinct, depth %d, %.1fs" % (module, cfg or module, st["generated"], st["distinct"], st["depth"], st["wall_s"]))
    return st


# ----------------------------------------------------------------------------------------------
# Trace validation (B direction). A trace file is ndjson; executions are separated by
# {"e":"Reset"} lines (when the trace spec has state) or every line is an execution of its own
# (stateless line-judging specs). Acceptance: TLC consumed every line (depth - 1 == lines).
# ----------------------------------------------------------------------------------------------
def count_lines(path):
    n = 0
    with open(path, "rb") as f:
        for _ in f:
            n += 1
    return n


def split_file(path, nshards, outprefix, boundary=None):
    """Split an ndjson file into about nshards files at execution boundaries (streaming: traces can be gigabytes).
    boundary: bytes a line must start with to begin a new execution (None: any line). Returns [(file, first line, lines)]."""
    total = count_lines(path)
    if total == 0:
        return []
    per = max(1, total // nshards)
    out, k, n_in, first = [], 0, 0, 0
    fo = None
    with open(path, "rb") as f:
        for i, l in enumerate(f):
            start = boundary is None or l.startswith(boundary)
            if fo is None or (n_in >= per and start and len(out) + 1 < nshards + 8):
                if fo is not None:
                    fo.close()
                    out.append((fn, first, n_in))
                fn = "%s.%d.ndjson" % (outprefix, k)
                k += 1
                fo = open(fn, "wb")
                first, n_in = i, 0
            fo.write(l)
            n_in += 1
    if fo is not None:
        fo.close()
        out.append((fn, first, n_in))
    return out


def _tlc_trace_once(run, module, cfg, tracefile, nlines, env, timeout, tag, mem="4g"):
    e = {"TRACE": tracefile}
    e.update(env or {})
    st = tlc(run, module, cfg, workers=1, timeout=timeout, env=e, tag=tag, mem=mem)
    consumed = max(0, st["depth"] - 1)
    if "Model checking completed" not in st["out"] and st["rc"] not in (0, 12, 13, 10, 11):
        raise Infra("trace validation run failed (%s): %s" % (module, st["out"][-2500:]))
    if st["rc"] not in (0,) and "TraceAccepted" not in st["out"] and "is violated" not in st["out"] and "postcondition" not in st["out"].lower():
        raise Infra("trace validation run failed (%s rc=%d): %s" % (module, st["rc"], st["out"][-2500:]))
    return consumed, st


def tracecheck(run, module, tracefile, cfg=None, shards=None, boundary=b'{"e":"Reset"', env=None,
               timeout=3600, max_rejects=5):
    """Validate an ndjson trace against spec/<module>.tla. Returns dict(lines, accepted_lines,
    executions, rejects=[{line, text, exec_lines}]). A rejection is confirmed by re-running TLC on
    the enclosing execution alone; the remainder is validated with that execution removed."""
    total = count_lines(tracefile)
    res = {"lines": total, "rejects": [], "tlc_states": 0, "shards": 0}
    if total == 0:
        return res
    shards = shards or min(NCPU, max(1, total // 2000))
    parts = split_file(tracefile, shards, tracefile + ".shard", boundary)
    res["shards"] = len(parts)
    import concurrent.futures as cf

    def work(part):
        fn, off, n = part
        rej = []
        states = 0
        cur = fn
        curoff = off
        it = 0
        while True:
            it += 1
            nl = count_lines(cur)
            if nl == 0:
                break
            consumed, st = _tlc_trace_once(run, module, cfg, cur, nl, env, timeout, "%s-s%d-%d" % (module, off, it))
            states += st["distinct"]
            if consumed >= nl:
                break
            # rejected at line index `consumed` (0-based) of cur
            lines = open(cur, "rb").read().splitlines(keepends=True)
            a = consumed
            while a > 0 and not (boundary is None or lines[a].startswith(boundary)):
                a -= 1
            if boundary is None:
                a = consumed
            b = consumed + 1
            while b < len(lines) and not (boundary is None or lines[b].startswith(boundary)):
                b += 1
            ex = lines[a:b]
            exf = "%s.rej%d" % (cur, it)
            with open(exf, "wb") as f:
                f.writelines(ex)
            c2, _ = _tlc_trace_once(run, module, cfg, exf, len(ex), env, timeout, "%s-confirm" % module)
            if c2 >= len(ex):
                raise Infra("trace rejection did not repeat in isolation (%s line %d)" % (module, consumed))
            rej.append({"exec": [l.decode("utf-8", "replace").rstrip("\n") for l in ex], "at": c2,
                        "line": ex[c2].decode("utf-8", "replace").rstrip("\n")})
            if len(rej) >= max_rejects:
                break
            rest = lines[:a] + lines[b:]
            cur = "%s.cont%d" % (fn, it)
            with open(cur, "wb") as f:
                f.writelines(rest)
        return rej, states

    with cf.ThreadPoolExecutor(max_workers=min(NCPU, len(parts))) as ex:
        for rej, states in ex.map(work, parts):
            res["rejects"] += rej
            res["tlc_states"] += states
    return res


# ----------------------------------------------------------------------------------------------
# Known findings, violations, evidence
# ----------------------------------------------------------------------------------------------
def load_known():
    known = []
    fn = os.path.join(VERIF, "KNOWN_FINDINGS.txt")
    if os.path.exists(fn):
        for l in open(fn):
            l = l.strip()
            if l.startswith("known:"):
                m = re.match(r"known:\s+property=(\S+)\s+match=(\S+)\s+(.*)", l)
                if m:
                    known.append({"property": m.group(1), "match": m.group(2), "what": m.group(3)})
    return known


def report_violation(run, signature, what, replay_obj):
    """signature: stable string identifying the failing input / call site / history."""
    for k in load_known():
        if k["property"] == run.pid and k["match"] in signature:
            if k not in run.known:
                run.known.append(k)
                print("KNOWN-FINDING: property=%s %s" % (run.pid, k["what"]))
            return
    d = os.path.join(VERIF, "replays", run.pid)
    os.makedirs(d, exist_ok=True)
    h = hashlib.sha1(signature.encode()).hexdigest()[:12]
    path = os.path.join(d, "%s.json" % h)
    with open(path, "w") as f:
        json.dump({"property": run.pid, "signature": signature, "what": what, "seed": run.seed, "tier": run.tier,
                   "replay": replay_obj}, f, indent=1)
    run.violations.append((what, path))
    if len(run.violations) <= 10:
        print("VIOLATION property=%s replay=%s" % (run.pid, path))
        sys.stderr.write("  -> %s\n" % what[:600])
    sys.stdout.flush()


def write_evidence(run, level, coverage, assumptions):
    evdir = os.path.join(VERIF, "evidence") if "VERIF_REPO" not in os.environ else "/tmp/verif-dev-evidence"   # dev runs against scratch trees never touch the committed evidence
    os.makedirs(evdir, exist_ok=True)
    ev = {"property_id": run.pid, "tier": run.tier, "seed": run.seed, "level": level, "coverage": coverage,
          "assumptions": assumptions, "wall_s": round(time.time() - run.t0, 2), "violations": len(run.violations),
          "known_findings": [k["what"] for k in run.known], "tlc_runs": run.tlc_runs, "notes": run.notes}
    tmp = os.path.join(evdir, ".%s.json.tmp%d" % (run.pid, os.getpid()))
    with open(tmp, "w") as f:
        json.dump(ev, f, indent=1)
    os.replace(tmp, os.path.join(evdir, "%s.json" % run.pid))


def run_harness(run, exe, args, out=None, timeout=1200, env=None, ok_codes=(0,)):
    """Run a harness; stdout to file `out`. Returns (rc, stderr tail)."""
    e = dict(SAN_ENV)
    e.update(env or {})
    errf = run.path("herr-%d.log" % int(time.time() * 1000 % 1e9))
    with open(out or os.devnull, "wb") as fo, open(errf, "wb") as fe:
        full = dict(os.environ)
        full.update(e)
        try:
            p = subprocess.run([exe] + [str(a) for a in args], stdout=fo, stderr=fe, env=full, timeout=timeout)
            rc = p.returncode
        except subprocess.TimeoutExpired:
            rc = -9
    err = open(errf, "r", errors="replace").read()[-20000:]
    return rc, err


# ----------------------------------------------------------------------------------------------
# Apalache (symbolic): one invariant of a spec at length 0 (all initial states = all operand values)
# ----------------------------------------------------------------------------------------------
def apalache(run, module, cfg, inv, timeout=900):
    out = run.path("apa-%s-%s" % (module, inv), "x")[:-2]
    cmd = ["apalache-mc", "check", "--config=" + os.path.join(SPEC, cfg + ".cfg"), "--length=0", "--inv=" + inv,
           "--out-dir=" + out, os.path.join(SPEC, module + ".tla")]
    t0 = time.time()
    try:
        p = subprocess.run(cmd, cwd=out, stdout=subprocess.PIPE, stderr=subprocess.STDOUT, timeout=timeout,
                           env=dict(os.environ, JVM_ARGS="-Xmx8g -Djava.io.tmpdir=" + out))
        text = p.stdout.decode("utf-8", "replace")
    except subprocess.TimeoutExpired:
        text = "TIMEOUT"
    res = "discharged" if "The outcome is: NoError" in text else "violated" if "The outcome is: Error" in text else "timeout" if text == "TIMEOUT" else "unknown"
    shutil.rmtree(out, ignore_errors=True)
    return {"module": module, "inv": inv, "result": res, "wall_s": round(time.time() - t0, 1), "tail": text[-600:]}
