----------------------------- MODULE Trace_Alloc -----------------------------
(* C13: the allocator event stream of real workloads obeys the discipline of   *)
(* CborAlloc (blocks tracked by TLC from the events, not by harness counters);  *)
(* pure operations produce no event; nothing bypasses the installed allocator;  *)
(* at quiescence nothing is live.                                              *)
(* C06: one line per (scenario, refused request, schedule): the events of the  *)
(* failed operation touch only blocks it obtained itself and leave none, the    *)
(* documented failure channel is used, the arguments are exactly as before.     *)
EXTENDS CborAllocEvents, Json, IOUtils, TLC

TraceLog == ndJsonDeserialize(IOEnv.TRACE)
VARIABLES l, blocks
Ln == TraceLog[l]

(* documented failure channels (headers' @return clauses) *)
FailChannel(sc) == CASE sc = "load" -> "mem" [] sc \in {"copy", "build", "build_tag"} -> "null"
                     [] sc = "serialize_alloc" -> "zero" [] OTHER -> "false"

(* blocks obtained by the operation itself and still held; Bad if it releases or moves anything else *)
MineStep(mine, e) ==
  IF mine = Bad THEN Bad
  ELSE CASE e.op = "M" -> mine \cup {e.a}
         [] e.op = "R" -> IF e.a = 0 THEN mine \cup {e.b} ELSE IF e.a \in mine THEN (mine \ {e.a}) \cup {e.b} ELSE Bad
         [] e.op = "F" -> IF e.a \in mine THEN mine \ {e.a} ELSE Bad
         [] e.op = "X" -> mine
         [] OTHER -> Bad
RECURSIVE MineAll(_, _, _)
MineAll(mine, evs, k) == IF k > Len(evs) THEN mine ELSE MineAll(MineStep(mine, evs[k]), evs, k + 1)

FaultJudge(ln, x, mine) ==
  IF x > 0
    THEN /\ ln.ret = FailChannel(ln.sc)              \* reports failure through its documented channel
         /\ mine = {}                                 \* released everything it had allocated, touched nothing else
         /\ ln.after = ln.before                      \* arguments, contents and reference counts exactly as before
         /\ ln.live_delta_before_release = 0 /\ ln.live_delta = 0
    ELSE ln.ret = "ok" /\ mine # Bad
FaultOK(ln) == FaultJudge(ln, Refusals(ln.ev), MineAll({}, ln.ev, 1))

Init == l = 1 /\ blocks = {}
Op == /\ l <= Len(TraceLog) /\ Ln.e = "op"
      /\ blocks' = ApplyAll(blocks, Ln.ev, 1) /\ blocks' # Bad
      /\ (Ln.pure => Ln.ev = <<>>)                    \* requests no memory at all
      /\ Ln.bypass = 0                                \* never the C library directly
      /\ l' = l + 1
Quiet == /\ l <= Len(TraceLog) /\ Ln.e = "quiet"
         /\ blocks = {} /\ Ln.live = 0 /\ Ln.foreign = 0
         /\ UNCHANGED blocks /\ l' = l + 1
Fault == /\ l <= Len(TraceLog) /\ Ln.e = "fault" /\ FaultOK(Ln) /\ UNCHANGED blocks /\ l' = l + 1
Next == Op \/ Quiet \/ Fault
Spec == Init /\ [][Next]_<<l, blocks>>
=============================================================================
