------------------------------ MODULE CborWire ------------------------------
(* The wire layer of RFC 8949: the 256-way initial byte table and the        *)
(* contract of one cbor_stream_decode call (streaming.c:43-601,              *)
(* data.h:213-258), written as the REQUIREMENT (property C08), not as a      *)
(* transcription of the switch statement.                                    *)
EXTENDS Bytes, CborFloat

MT(b0) == b0 \div 32
AI(b0) == b0 % 32

Argw(b0) == LET ai == AI(b0) IN
  CASE ai < 24 -> 0 [] ai = 24 -> 1 [] ai = 25 -> 2 [] ai = 26 -> 4 [] ai = 27 -> 8 [] OTHER -> 0

(* kind of head an initial byte announces, in libcbor's supported profile *)
Kind(b0) == LET mt == MT(b0)  ai == AI(b0) IN
  IF ai \in 28..30 THEN "rsv"
  ELSE IF ai = 31 THEN
     CASE mt = 2 -> "bstart" [] mt = 3 -> "tstart" [] mt = 4 -> "iarr" [] mt = 5 -> "imap"
       [] mt = 7 -> "break" [] OTHER -> "rsv"
  ELSE CASE mt = 0 -> "uint" [] mt = 1 -> "negint" [] mt = 2 -> "bstr" [] mt = 3 -> "tstr"
         [] mt = 4 -> "arr" [] mt = 5 -> "map" [] mt = 6 -> "tag"
         [] OTHER -> \* mt = 7
            CASE ai = 20 -> "false" [] ai = 21 -> "true" [] ai = 22 -> "null" [] ai = 23 -> "undef"
              [] ai = 25 -> "f16" [] ai = 26 -> "f32" [] ai = 27 -> "f64"
              [] OTHER -> "rsv"   \* unassigned simple values 0..19 and the 1-byte simple form

(* The same table written the way RFC 8949 Appendix B lists it (ranges of     *)
(* initial bytes). MC_Wire checks KindB = Kind on all 256 bytes: a typo in    *)
(* either definition is caught by the other.                                  *)
KindB(b0) ==
  CASE b0 \in 0..27    -> "uint"   [] b0 \in 32..59   -> "negint"
    [] b0 \in 64..91   -> "bstr"   [] b0 = 95         -> "bstart"
    [] b0 \in 96..123  -> "tstr"   [] b0 = 127        -> "tstart"
    [] b0 \in 128..155 -> "arr"    [] b0 = 159        -> "iarr"
    [] b0 \in 160..187 -> "map"    [] b0 = 191        -> "imap"
    [] b0 \in 192..219 -> "tag"
    [] b0 = 244 -> "false" [] b0 = 245 -> "true" [] b0 = 246 -> "null" [] b0 = 247 -> "undef"
    [] b0 = 249 -> "f16" [] b0 = 250 -> "f32" [] b0 = 251 -> "f64" [] b0 = 255 -> "break"
    [] OTHER -> "rsv"

IntSlot(prefix, w) == CASE w \in {0, 1} -> prefix \o "8" [] w = 2 -> prefix \o "16"
                        [] w = 4 -> prefix \o "32" [] OTHER -> prefix \o "64"

(* name of the member of struct cbor_callbacks that must fire *)
Slot(b0) == LET k == Kind(b0) IN
  CASE k = "uint" -> IntSlot("uint", Argw(b0)) [] k = "negint" -> IntSlot("negint", Argw(b0))
    [] k = "bstr" -> "byte_string" [] k = "bstart" -> "byte_string_start"
    [] k = "tstr" -> "string" [] k = "tstart" -> "string_start"
    [] k = "arr" -> "array_start" [] k = "iarr" -> "indef_array_start"
    [] k = "map" -> "map_start" [] k = "imap" -> "indef_map_start"
    [] k = "tag" -> "tag" [] k \in {"false", "true"} -> "boolean"
    [] k = "null" -> "null" [] k = "undef" -> "undefined"
    [] k = "f16" -> "float2" [] k = "f32" -> "float4" [] k = "f64" -> "float8"
    [] k = "break" -> "indef_break" [] OTHER -> "none"

HasArg(k) == k \in {"uint", "negint", "bstr", "tstr", "arr", "map", "tag", "f16", "f32", "f64"}
IsStr(k)  == k \in {"bstr", "tstr"}

(* argument bytes of a complete head *)
ArgOf(buf) == LET b0 == buf[1] w == Argw(b0) IN
  IF w = 0 THEN <<AI(b0)>> ELSE SubSeq(buf, 2, 1 + w)

(* One call of the streaming decoder on a window whose first bytes are `buf`  *)
(* (at least min(n, 9) of them) and whose length is n (n < 2^31).             *)
(*   st   : "fin" | "nedata" | "error"                                        *)
(*   read : bytes consumed (small)            -- fin only                     *)
(*   full : byte number, the full length of the pending head (+payload)      *)
(*          as far as the window determines it -- nedata only                 *)
(*   slot, arg, off : callback, its argument bytes, payload offset -- fin    *)
StreamDecode(buf, n) ==
  IF n = 0 THEN [st |-> "nedata", full |-> <<1>>, read |-> 0, slot |-> "none", arg |-> <<>>, off |-> 0, kind |-> "none"]
  ELSE LET b0 == buf[1]  k == Kind(b0)  w == Argw(b0) IN
    IF k = "rsv" THEN [st |-> "error", full |-> <<>>, read |-> 0, slot |-> "none", arg |-> <<>>, off |-> 0, kind |-> k]
    ELSE IF n < 1 + w THEN [st |-> "nedata", full |-> <<1 + w>>, read |-> 0, slot |-> "none", arg |-> <<>>, off |-> 0, kind |-> k]
    ELSE LET a == ArgOf(buf) IN
      IF IsStr(k) THEN
        LET full == AddSmall(a, 1 + w) IN
        IF Lt(BE(n, 4), full)
          THEN [st |-> "nedata", full |-> full, read |-> 0, slot |-> "none", arg |-> <<>>, off |-> 0, kind |-> k]
          ELSE [st |-> "fin", full |-> full, read |-> Val(full), slot |-> Slot(b0), arg |-> Strip(a), off |-> 1 + w, kind |-> k]
      ELSE [st |-> "fin", full |-> <<1 + w>>, read |-> 1 + w, slot |-> Slot(b0),
            arg |-> IF HasArg(k) THEN (IF k \in {"f16", "f32", "f64"} THEN a ELSE Strip(a))
                    ELSE IF k = "true" THEN <<1>> ELSE <<>>,
            off |-> 0, kind |-> k]

(* NEDATA contract of C08 / C09: strictly more than buffered, never more than *)
(* the pending item really occupies (req is a size_t: at most 2^64-1).        *)
RequiredOK(req, n, full) == Gt(req, BE(n, 4)) /\ Leq(req, full)

(* value bits a float callback must receive, as bytes of the C float/double   *)
FloatArgOK(k, a, got) ==
  CASE k = "f16" -> (IF HalfIsNaN(a) THEN SingleIsNaN(got) ELSE got = HalfToSingle(a))
    [] k = "f32" -> (IF SingleIsNaN(a) THEN SingleIsNaN(got) ELSE got = a)
    [] k = "f64" -> (IF DoubleIsNaN(a) THEN DoubleIsNaN(got) ELSE got = a)
    [] OTHER -> FALSE

(* RFC 8949 tokenisation of a byte string into head events; stops at the first *)
(* incomplete or reserved head. Each event: [k, w, arg, len (payload bytes)]    *)
RECURSIVE TokeniseR(_, _)
TokeniseR(bytes, acc) ==
  IF bytes = <<>> THEN [evs |-> acc, rest |-> <<>>, end |-> "eof"]
  ELSE LET r == StreamDecode(bytes, Len(bytes)) IN
    IF r.st = "fin"
      THEN TokeniseR(SubSeq(bytes, r.read + 1, Len(bytes)),
                     Append(acc, [k |-> r.kind, w |-> Argw(bytes[1]), slot |-> r.slot, arg |-> r.arg,
                                  pay |-> IF IsStr(r.kind) THEN SubSeq(bytes, r.off + 1, r.read) ELSE <<>>,
                                  n |-> r.read]))
      ELSE [evs |-> acc, rest |-> bytes, end |-> r.st]
Tokenise(bytes) == TokeniseR(bytes, <<>>)
=============================================================================
