SPECIFICATION Spec
