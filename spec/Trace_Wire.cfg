SPECIFICATION Spec
