---------------------------- MODULE Trace_Decoder ----------------------------
(* B-direction conformance for cbor_load (C01, C02, C05, C14, C19).            *)
(* One "step" line per loop iteration (hook, emitted right after the callback  *)
(* ran), one "ret" line per return. The trace spec steps CborDecoder along the *)
(* logged heads -- CborWire.StreamDecode on the logged window must give the    *)
(* logged status and length -- compares the projected state after every step,  *)
(* and at the return judges the result against the machine's verdict AND       *)
(* against the declarative grammar.                                            *)
EXTENDS CborDecoder, CborEvents, Json, IOUtils, TLC

TraceLog == ndJsonDeserialize(IOEnv.TRACE)
TraceL == atoi(IOEnv.VERIF_L)

VARIABLES l, l0          \* position in the trace; line of the current execution's "load"
tvars == <<dvars, l, l0>>

Ln == TraceLog[l]
IsEvent(e) == l <= Len(TraceLog) /\ TraceLog[l].e = e /\ l' = l + 1

TopView(st) == [t |-> Top(st).t, def |-> Top(st).def, n |-> Len(Top(st).items)]
Unwritten == [ok |-> FALSE, code |-> "unwritten", pos |-> 0, tree |-> <<>>]

TInit == Idle /\ len = 0 /\ eager = FALSE /\ l = 1 /\ l0 = 0

(* the heads of the current execution, recomputed from the trace lines (kept out of the state) *)
EvsNow == [i \in 1..(l - l0 - 1) |-> EventOf(TraceLog[l0 + i].head, TraceLog[l0 + i].rem, TraceLog[l0 + i].pay)]

(* between executions *)
TReset == /\ IsEvent("Reset")
          /\ status' = "idle" /\ len' = 0 /\ pos' = 0 /\ stack' = <<>> /\ root' = <<>> /\ cf' = FALSE /\ se' = FALSE
          /\ last' = "none" /\ result' = Unwritten /\ refusals' = 0 /\ chain' = 0 /\ l0' = l0
          /\ eager' \in BOOLEAN          \* the policy is not logged: TLC infers it

TLoad == /\ IsEvent("load") /\ status = "idle"
         /\ Ln.L = L
         /\ len' = Ln.len
         /\ IF Ln.len = 0
              THEN /\ status' = "returned"                                    \* NoData
                   /\ result' = [ok |-> FALSE, code |-> "nodata", pos |-> 0, tree |-> <<>>]
              ELSE status' = "run" /\ UNCHANGED result                        \* Start
         /\ l0' = l
         /\ UNCHANGED <<pos, stack, root, cf, se, last, refusals, chain, eager>>

(* (operator arguments are evaluated once by TLC, action-level LET definitions at every use) *)
StepJudge(ln, w, e, refused) ==
               /\ ln.off = pos /\ ln.rem = len - pos              \* the window is the unread rest of the buffer
               /\ w.st = ln.st                                    \* the wire layer did what CborWire says
               /\ (ln.st = "fin" => w.read = ln.read)
               /\ OnHead(e, refused)                              \* the machine takes the step for that head
               /\ cf' = ln.cf
               /\ (~refused /\ ln.st = "fin") =>                   \* projected state equals logged state
                     /\ se' = ln.se
                     /\ Len(stack') = ln.depth
                     /\ (ln.depth > 0 => TopView(stack') = ln.top)
IsRefused(ln, e) == ln.x > 0 \/ (e.st = "fin" /\ e.k \in {"arr", "map"} /\ e.cnt = HugeCnt)
StepJudge2(ln, e) == StepJudge(ln, StreamDecode(ln.head, ln.rem), e, IsRefused(ln, e))

TStep == /\ IsEvent("step")
         /\ StepJudge2(Ln, EventOf(Ln.head, Ln.rem, Ln.pay))
         /\ l0' = l0

RetJudge(ln, v, adm) ==
              /\ ln.ok = v.ok /\ ln.code = v.code
              /\ ln.wr = <<TRUE, TRUE, TRUE>>                      \* every field of the result filled in
              /\ ln.rets = 1 /\ ln.shape
              /\ IF v.ok
                   THEN /\ Eq(ln.read, BE(v.pos, 4))               \* bytes read = encoded length of the first item
                        /\ TreeEqJ(ln.tree, v.tree[1])             \* the faithful tree
                        /\ AllRcOne(ln.tree)                       \* every node owned solely by the caller
                        /\ ln.post_live = 0                        \* releasing it releases everything
                   ELSE /\ Eq(ln.pos, BE(v.pos, 4))
                        /\ Leq(ln.read, BE(len, 4))
                        /\ ln.live = 0                             \* nothing left allocated
              /\ v \in adm                                        \* the grammar's verdict
              /\ result' = v

TRet == /\ IsEvent("ret")
        /\ status \in {"run", "returned"}
        /\ (status = "run" => Leaving)                            \* it returns only where the loop must leave
        /\ RetJudge(Ln, IF status = "run" THEN Verdict ELSE result,
                    IF refusals = 0 /\ len > 0 THEN Admissible(EvsNow, L, pos >= len)
                    ELSE {IF status = "run" THEN Verdict ELSE result})
        /\ status' = "returned" /\ stack' = <<>>
        /\ UNCHANGED <<len, pos, root, cf, se, last, refusals, chain, eager, l0>>

TNext == TReset \/ TLoad \/ TStep \/ TRet
TSpec == TInit /\ [][TNext]_tvars
=============================================================================
