SPECIFICATION SSpec
CONSTANTS
  NoId = 0
  N = 5
  MaxRef = 3
  MaxCap = 2
  Ops = {}
CONSTRAINT SBound
INVARIANT Emit
INVARIANT RcExact
INVARIANT FreedOnce
