SPECIFICATION TSpec
