----------------------------- MODULE Trace_Wire -----------------------------
(* B-direction conformance for C08: every recorded cbor_stream_decode call    *)
(* (h_wire.c) is judged against CborWire.StreamDecode. One line = one call;   *)
(* the trace is accepted iff every line is consumed.                          *)
EXTENDS CborWire, Json, IOUtils, TLC

TraceLog == ndJsonDeserialize(IOEnv.TRACE)

VARIABLE l

LineJudge(ln, r) ==
  /\ ln.st = r.st
  /\ ln.allocs = 0                                     \* the call requests / releases no memory
  /\ ln.st = "fin" =>
        /\ ln.calls = 1 /\ ln.ctx                      \* exactly one callback, handed the caller's context pointer ...
        /\ ln.slot = r.slot                             \* ... the one for this head
        /\ ln.read = r.read
        /\ Eq(ln.req, <<>>)
        /\ IF r.kind \in {"f16", "f32", "f64"} THEN FloatArgOK(r.kind, r.arg, ln.arg)
           ELSE IF r.kind \in {"true", "false"} THEN ln.arg = r.arg
           ELSE IF HasArg(r.kind) THEN Eq(ln.arg, r.arg) ELSE ln.arg = <<>>
        /\ IsStr(r.kind) => ln.off = r.off              \* payload pointer inside the window
  /\ ln.st = "nedata" =>
        /\ ln.calls = 0 /\ ln.read = 0
        /\ RequiredOK(ln.req, ln.n, r.full)
  /\ ln.st = "error" => ln.calls = 0 /\ ln.read = 0

(* "keeps no state between calls": a run of calls with the library's writable globals write-protected; *)
(* a call that stores to one faults and is counted (the device is self-tested in the same run)          *)
GlobalsOK(ln) == ln.selftest /\ ln.segments > 0 /\ ln.calls > 0 /\ ln.faults = 0

LineOK(ln) == IF ln.e = "globals" THEN GlobalsOK(ln) ELSE LineJudge(ln, StreamDecode(ln.buf, ln.n))

Init == l = 1
Next == l <= Len(TraceLog) /\ LineOK(TraceLog[l]) /\ l' = l + 1
Spec == Init /\ [][Next]_l
=============================================================================
