INIT Init
NEXT Next
CONSTANT W = 6
INVARIANT MulSound
INVARIANT AddExact
INVARIANT SigAddOK
INVARIANT AllocOK
INVARIANT GrowOK
