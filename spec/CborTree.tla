------------------------------ MODULE CborTree ------------------------------
(* Item trees as uniform records, shared by the grammar, the decoder machine, *)
(* the encoder and the trace specs.                                           *)
(*   t     : "uint" "negint" "bstr" "tstr" "arr" "map" "tag" "float" "ctrl"   *)
(*   w     : stored width in bytes (ints 1,2,4,8; floats 2,4,8; else 0)       *)
(*   def   : definite (TRUE for everything that is not an indefinite item)    *)
(*   v     : value bytes: int value (stripped), string payload, tag number    *)
(*           (stripped), float bits (f16 items hold the SINGLE they denote,   *)
(*           as libcbor stores a C float), simple value <<n>>                 *)
(*   items : children: array members / map k1,v1,k2,v2,... / chunks / tagged  *)
EXTENDS Bytes, CborFloat

Mk(t, w, def, v, items) == [t |-> t, w |-> w, def |-> def, v |-> v, items |-> items]

IsNaNLeaf(x) == x.t = "float" /\
   ((x.w \in {2, 4} /\ SingleIsNaN(x.v)) \/ (x.w = 8 /\ DoubleIsNaN(x.v)))

(* canonical form for equality: every NaN equals every NaN of the same width *)
RECURSIVE Canon(_)
Canon(x) == IF IsNaNLeaf(x) THEN [x EXCEPT !.v = <<>>]
            ELSE [x EXCEPT !.items = [i \in 1..Len(x.items) |-> Canon(x.items[i])]]
TreeEq(a, b) == Canon(a) = Canon(b)

(* Trees are logged FLAT (harness/h_tree.c): the pre-order list of nodes, each [t, w, def, v, nc, rc]   *)
(* with nc = number of children, because the JSON parser behind TLC refuses nesting deeper than 255.   *)
RECURSIVE FlatOfTree(_)
RECURSIVE FlatOfItems(_, _)
FlatOfItems(items, i) == IF i > Len(items) THEN <<>> ELSE FlatOfTree(items[i]) \o FlatOfItems(items, i + 1)
FlatOfTree(x) == <<[t |-> x.t, w |-> x.w, def |-> x.def, v |-> x.v, nc |-> Len(x.items)]>> \o FlatOfItems(x.items, 1)

NodeOfJson(n) == [t |-> n.t, w |-> n.w, def |-> n.def, nc |-> n.nc,
                  v |-> IF n.t \in {"uint", "negint", "tag"} THEN Strip(n.v) ELSE n.v]
FlatOfJson(j) == [i \in 1..Len(j) |-> NodeOfJson(j[i])]

IsNaNNode(n) == n.t = "float" /\ ((n.w \in {2, 4} /\ SingleIsNaN(n.v)) \/ (n.w = 8 /\ DoubleIsNaN(n.v)))
CanonFlat(f) == [i \in 1..Len(f) |-> IF IsNaNNode(f[i]) THEN [f[i] EXCEPT !.v = <<>>] ELSE f[i]]

(* logged tree j equals specification tree x (NaN = NaN) *)
TreeEqJ(j, x) == CanonFlat(FlatOfJson(j)) = CanonFlat(FlatOfTree(x))
AllRcOne(j) == \A i \in 1..Len(j) : j[i].rc = 1

(* rebuild a nested tree from the flat list: [tree, next] *)
RECURSIVE TreeAt(_, _)
RECURSIVE KidsAt(_, _, _, _)
KidsAt(f, i, n, acc) == IF n = 0 THEN [items |-> acc, next |-> i]
                        ELSE LET r == TreeAt(f, i) IN KidsAt(f, r.next, n - 1, Append(acc, r.tree))
TreeAt(f, i) == LET k == KidsAt(f, i + 1, f[i].nc, <<>>) IN
                [tree |-> Mk(f[i].t, f[i].w, f[i].def, f[i].v, k.items), next |-> k.next]
TreeOfJson(j) == TreeAt(FlatOfJson(j), 1).tree

RECURSIVE NodeCount(_)
RECURSIVE SumNodes(_, _)
SumNodes(items, i) == IF i > Len(items) THEN 0 ELSE NodeCount(items[i]) + SumNodes(items, i + 1)
NodeCount(x) == 1 + SumNodes(x.items, 1)

(* nesting depth in the sense of the decoding stack: open arrays/maps (non-empty if definite), *)
(* tags and chunked strings                                                                    *)
RECURSIVE Depth(_)
RECURSIVE MaxDepth(_, _)
MaxDepth(items, i) == IF i > Len(items) THEN 0
                      ELSE LET a == Depth(items[i]) b == MaxDepth(items, i + 1) IN IF a > b THEN a ELSE b
Depth(x) == IF x.t \in {"uint", "negint", "float", "ctrl"} THEN 0
            ELSE IF x.t \in {"bstr", "tstr"} /\ x.def THEN 0
            ELSE IF x.t \in {"arr", "map"} /\ x.def /\ x.items = <<>> THEN 0
            ELSE 1 + MaxDepth(x.items, 1)
=============================================================================
