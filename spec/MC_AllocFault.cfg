SPECIFICATION Spec
CONSTANTS
  MaxReq = 4
  MaxBlocks = 6
CONSTRAINT Bound
INVARIANT FailureIsClean
INVARIANT FailureIsReported
INVARIANT SuccessKeepsOnlyResults
