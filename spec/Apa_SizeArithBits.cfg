INIT Init
NEXT Next
