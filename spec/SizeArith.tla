------------------------------ MODULE SizeArith ------------------------------
(* Size arithmetic of libcbor at word width W (size_t has W bits):            *)
(* memory_utils.c:15-57 (_cbor_highest_bit, _cbor_safe_to_multiply,           *)
(* _cbor_safe_to_add, _cbor_safe_signaling_add, _cbor_alloc_multiple,         *)
(* _cbor_realloc_multiple), the growth sites of arrays.c / maps.c / strings.c *)
(* / bytestrings.c, and one step of the serialized-size accumulation          *)
(* (serialization.c:63-162). Unsigned C arithmetic is modelled modulo 2^W;    *)
(* the obligations of property C20 compare it with unbounded integers.        *)
(* The same text is checked by TLC exhaustively at W in {4,6,8} and by        *)
(* Apalache symbolically at W = 32 and W = 64.                                *)
EXTENDS Integers

CONSTANT
  \* @type: Int;
  W

VARIABLES
  \* @type: Int;
  a,
  \* @type: Int;
  b

Max == 2^W - 1
Wrap(x) == x % (2^W)

(* k is the position of the highest set bit of n, counted from 1 (0 for n = 0): what the loop of _cbor_highest_bit returns *)
IsHighestBit(n, k) == (n = 0 /\ k = 0) \/ (k >= 1 /\ 2^(k - 1) <= n /\ n < 2^k)

SafeToMultiply(x, y) == x <= 1 \/ y <= 1 \/ \E i \in 0..W, j \in 0..W : IsHighestBit(x, i) /\ IsHighestBit(y, j) /\ i + j <= W
SafeToAdd(x, y) == LET sum == Wrap(x + y) IN sum >= x /\ sum >= y
SigAdd(x, y) == IF x = 0 \/ y = 0 THEN 0 ELSE IF SafeToAdd(x, y) THEN Wrap(x + y) ELSE 0
(* _cbor_alloc_multiple(item_size, item_count): the size passed to malloc, or -1 when it refuses without calling it *)
AllocRequest(s, n) == IF SafeToMultiply(s, n) THEN Wrap(s * n) ELSE -1
(* growth of an indefinite container with capacity cap and element size s: [ok, newcap, request] *)
GrowOk(cap) == SafeToMultiply(2, cap)
GrowCap(cap) == IF cap = 0 THEN 1 ELSE Wrap(2 * cap)

(* ---- obligations (C20) ---- *)
MulSound == SafeToMultiply(a, b) => a * b <= Max                         \* an accepted product never wraps
AddExact == SafeToAdd(a, b) <=> a + b <= Max
SigAddOK == /\ SigAdd(a, b) \in {0, a + b}                                \* exact total or 0
            /\ (SigAdd(a, b) # 0 => a + b <= Max)
            /\ SigAdd(0, b) = 0 /\ SigAdd(a, 0) = 0                       \* 0 is absorbing
AllocOK == AllocRequest(a, b) # -1 => AllocRequest(a, b) = a * b         \* obtains exactly n*s, or is not attempted
GrowOK == GrowOk(a) => /\ GrowCap(a) > a                                  \* growth never computes a smaller capacity
                       /\ ((8 <= Max /\ AllocRequest(8, GrowCap(a)) # -1) => AllocRequest(8, GrowCap(a)) = 8 * GrowCap(a))
                       /\ ((16 <= Max /\ AllocRequest(16, GrowCap(a)) # -1) => AllocRequest(16, GrowCap(a)) = 16 * GrowCap(a))
                       \* (element sizes are size_t values themselves, hence the 8 / 16 <= Max)

Init == a \in 0..Max /\ b \in 0..Max
Next == UNCHANGED <<a, b>>
=============================================================================
