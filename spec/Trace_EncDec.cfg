SPECIFICATION Spec
