SPECIFICATION Spec
