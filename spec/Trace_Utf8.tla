------------------------------ MODULE Trace_Utf8 ------------------------------
(* C16: the reported code point count equals Utf8.Reported on the logged       *)
(* bytes (set_handle, build_stringn and cbor_load paths), byte length and      *)
(* content are preserved, and the decoder never rejects a text string for its  *)
(* content. "cls" lines stand for ALL concrete byte sequences of a class       *)
(* sequence: the harness ran every one of them and logs whether they agreed     *)
(* with the representative, TLC judges the representative; exactness of the    *)
(* class partition is an invariant of MC_Utf8.                                  *)
EXTENDS Utf8, Json, IOUtils, TLC

TraceLog == ndJsonDeserialize(IOEnv.TRACE)
VARIABLE l

ClsOK(ln) ==
  /\ \A i \in 1..Len(ln.rep) : ClassOf(ln.rep[i]) = ln.classes[i] /\ ClassOf(ln.rep2[i]) = ln.classes[i]
  /\ ln.count = Reported(ln.rep) /\ ln.count_b = ln.count /\ ln.count_l = ln.count /\ ln.count_r = ln.count /\ ln.count_c = ln.count
  /\ Reported(ln.rep2) = Reported(ln.rep)
  /\ ln.uniform /\ ln.preserved /\ ln.loaded
TxtOK(ln) ==
  /\ ln.cp_set = Reported(ln.b) /\ ln.cp_build = ln.cp_set /\ ln.cp_load = ln.cp_set
  /\ ln.cp_reattach = ln.cp_set                      \* attaching to an item that held another text before
  /\ ln.cp_chunk = ln.cp_set                         \* as a chunk of an indefinite text string through cbor_load
  /\ ln.cp_copyedit = ln.cp_set                      \* a copy of an item whose bytes were written in place after attaching: the copy holds these bytes
  /\ ln.cp_buildz = ln.cp_set                        \* through the NUL-terminated builder
  /\ ln.cp_reattach_same = ln.cp_set                 \* the same block attached again after its bytes were rewritten in place
  /\ ln.cp_copychunked = ln.cp_set                   \* as a chunk of an indefinite text string that is copied
  /\ ln.loaded /\ ln.same
LineOK(ln) == CASE ln.e = "classes" -> ln.lo = ClassLo /\ ln.hi = ClassHi
                [] ln.e = "cls" -> ClsOK(ln)
                [] OTHER -> TxtOK(ln)
Init == l = 1
Next == l <= Len(TraceLog) /\ LineOK(TraceLog[l]) /\ l' = l + 1
Spec == Init /\ [][Next]_l
=============================================================================
