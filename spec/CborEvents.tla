----------------------------- MODULE CborEvents -----------------------------
(* From raw head bytes (as logged by the harness) to the head events the     *)
(* grammar and the decoder machine consume: CborWire decides status, kind,   *)
(* argument and length; this module adds the tree a leaf head denotes.       *)
EXTENDS CborWire, CborTree

NoLeaf == Mk("none", 0, TRUE, <<>>, <<>>)
HugeCnt == 536870912        \* 2^29: counts are capped here; such a container can never be filled

CapCnt(a) == IF Small(a) /\ Val(a) < HugeCnt THEN Val(a) ELSE HugeCnt

LeafOf(k, w, arg, pay) ==
  CASE k \in {"uint", "negint"} -> Mk(k, IF w = 0 THEN 1 ELSE w, TRUE, Strip(arg), <<>>)
    [] k \in {"bstr", "tstr"} -> Mk(k, 0, TRUE, pay, <<>>)
    [] k = "false" -> Mk("ctrl", 0, TRUE, <<20>>, <<>>)
    [] k = "true" -> Mk("ctrl", 0, TRUE, <<21>>, <<>>)
    [] k = "null" -> Mk("ctrl", 0, TRUE, <<22>>, <<>>)
    [] k = "undef" -> Mk("ctrl", 0, TRUE, <<23>>, <<>>)
    [] k = "f16" -> Mk("float", 2, TRUE, HalfToSingle(arg), <<>>)
    [] k = "f32" -> Mk("float", 4, TRUE, arg, <<>>)
    [] k = "f64" -> Mk("float", 8, TRUE, arg, <<>>)
    [] OTHER -> NoLeaf

(* head: first min(rem, 9) bytes of the window; rem: window length; pay: payload bytes of a definite string *)
EventOf(head, rem, pay) ==
  LET r == StreamDecode(head, rem) IN
  IF r.st # "fin"
    THEN [st |-> r.st, k |-> IF r.st = "error" THEN "rsv" ELSE "cut", cnt |-> 0, n |-> 0, v |-> <<>>, leaf |-> NoLeaf]
    ELSE [st |-> "fin", k |-> r.kind,
          cnt |-> IF r.kind \in {"arr", "map"} THEN CapCnt(r.arg) ELSE 0,
          n |-> r.read,
          v |-> IF r.kind = "tag" THEN r.arg ELSE <<>>,
          leaf |-> LeafOf(r.kind, Argw(head[1]), r.arg, pay)]

(* all head events of a byte string, stopping after the first incomplete / reserved head *)
RECURSIVE EventsR(_, _)
EventsR(bytes, acc) ==
  IF bytes = <<>> THEN acc
  ELSE LET n    == Len(bytes)
           head == SubSeq(bytes, 1, IF n < 9 THEN n ELSE 9)
           r    == StreamDecode(head, n)
           pay  == IF r.st = "fin" /\ IsStr(r.kind) THEN SubSeq(bytes, r.off + 1, r.read) ELSE <<>>
           e    == EventOf(head, n, pay)
       IN IF e.st # "fin" THEN Append(acc, e)
          ELSE EventsR(SubSeq(bytes, e.n + 1, n), Append(acc, e))
EventsOfBytes(bytes) == EventsR(bytes, <<>>)
=============================================================================
