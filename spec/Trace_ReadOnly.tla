---------------------------- MODULE Trace_ReadOnly ----------------------------
(* C18: the write footprint of every read-only operation, OBSERVED on the real *)
(* code by running it on a tree in write-protected memory, must be the empty   *)
(* footprint CborThreads assumes for SharedRead (which is what makes readers   *)
(* of one shared tree race-free for all schedules, MC_Threads). The list of    *)
(* operations that count as read-only is a constant of the specification.      *)
EXTENDS Naturals, Sequences, Json, IOUtils, TLC

TraceLog == ndJsonDeserialize(IOEnv.TRACE)
VARIABLE l

ReadOnlyOps == {"serialized_size", "serialize", "serialize_small_buffer", "serialize_alloc", "serialize_alloc_nosize", "serialize_alloc_moved", "serialized_size_moved", "serialize_moved", "typeof", "isa", "is", "refcount", "int_get_width", "get_int",
                "bytestring_is_definite", "bytestring_length", "bytestring_handle", "bytestring_chunks",
                "string_is_definite", "string_length", "string_handle", "string_chunks",
                "array_size", "array_is_definite", "array_handle", "map_size", "map_is_definite", "map_handle",
                "tag_value", "float_ctrl_is_ctrl", "float_get_width", "ctrl_value", "get_bool", "float_get_float"}

LineOK(ln) == /\ \A k \in 1..Len(ln.ops) : ln.ops[k].op \in ReadOnlyOps /\ ln.ops[k].writes = 0   \* not even a transient store
              /\ ln.after = ln.tree                                                              \* and nothing changed
Init == l = 1
Next == l <= Len(TraceLog) /\ LineOK(TraceLog[l]) /\ l' = l + 1
Spec == Init /\ [][Next]_l
=============================================================================
