------------------------------- MODULE MC_Wire -------------------------------
(* Design-level check of the wire requirement itself: the two transcriptions  *)
(* of the initial-byte table agree on all 256 bytes, every (head, window      *)
(* length) has exactly one well-formed outcome, a FINISHED result depends     *)
(* only on the bytes it reports as read, and a legal `required` always exists.*)
EXTENDS CborWire, TLC

VARIABLES b0, arg, n

SomeBytes == {0, 1, 23, 24, 127, 128, 254, 255}
ArgSet(w) == CASE w = 0 -> {<<>>}
               [] w = 1 -> {<<v>> : v \in Byte}
               [] w = 2 -> {<<x, y>> : x \in SomeBytes, y \in SomeBytes}
               [] w = 4 -> {<<x, y, z, t>> : x \in {0, 255}, y \in {0, 1, 255}, z \in {0, 1, 255}, t \in {0, 23, 24, 255}}
               [] OTHER -> {<<a, 0, 0, b, c, 0, d, e>> : a \in {0, 127, 255}, b \in {0, 255}, c \in {0, 1}, d \in {0, 1, 255}, e \in {0, 24, 255}}
                           \cup {[i \in 1..8 |-> 255]}

Window(b, a, m) == LET img == <<b>> \o a \o [i \in 1..3 |-> 165] IN SubSeq(img, 1, IF m < Len(img) THEN m ELSE Len(img))

Lens(b, a) == LET w == Argw(b) IN
   (0..(w + 2)) \cup
   (IF IsStr(Kind(b)) /\ Len(a) = w /\ Small(IF w = 0 THEN <<AI(b)>> ELSE a) /\ Val(IF w = 0 THEN <<AI(b)>> ELSE a) < 70000
      THEN LET f == 1 + w + Val(IF w = 0 THEN <<AI(b)>> ELSE a) IN {f - 1, f, f + 1}
      ELSE {})

Init == /\ b0 \in Byte
        /\ arg \in ArgSet(Argw(b0))
        /\ n \in Lens(b0, arg)
Next == UNCHANGED <<b0, arg, n>>
Spec == Init /\ [][Next]_<<b0, arg, n>>

R == StreamDecode(Window(b0, arg, n), n)

TablesAgree == Kind(b0) = KindB(b0)
Trichotomy == R.st \in {"fin", "nedata", "error"}
FinShape == R.st = "fin" =>
     /\ R.read >= 1 /\ R.read <= n /\ R.slot # "none"
     /\ IsStr(R.kind) => R.off = 1 + Argw(b0) /\ Eq(AddSmall(R.arg, R.off), BE(R.read, 4))
     /\ ~IsStr(R.kind) => R.read = 1 + Argw(b0)
NeedShape == R.st = "nedata" =>
     /\ Gt(R.full, BE(n, 4))                       \* so a legal `required` exists ...
     /\ RequiredOK(Sat64(R.full), n, R.full)       \* ... even when the true length exceeds 2^64-1
ErrorShape == R.st = "error" => Kind(b0) = "rsv" /\ n >= 1
(* a FINISHED result is a function of the first `read` bytes only *)
PrefixOnly == R.st = "fin" =>
     LET win == Window(b0, arg, n)
         r2 == StreamDecode(SubSeq(win, 1, IF R.read < Len(win) THEN R.read ELSE Len(win)), R.read) IN
     r2.st = "fin" /\ r2.read = R.read /\ r2.slot = R.slot /\ r2.arg = R.arg /\ r2.off = R.off
(* more bytes never turn FINISHED into something else *)
Monotone == R.st = "fin" => StreamDecode(Window(b0, arg, n + 1), n + 1).st = "fin"
SlotMatchesKind == R.st = "fin" => R.slot = Slot(b0)
=============================================================================
