------------------------------ MODULE MC_Stream ------------------------------
(* Every stream of up to MaxItems heads from a 12-head alphabet, EVERY way of  *)
(* cutting it into arriving fragments, and both extreme legal answers for      *)
(* `required`: the events delivered are always a prefix of the tokenisation,   *)
(* every wait can be satisfied, and a stream that ends on an item boundary is  *)
(* delivered completely (liveness under fairness).                             *)
EXTENDS StreamClient, TLC
CONSTANT MaxItems

Alphabet == {<<0>>, <<24, 42>>, <<25, 1, 0>>, <<65, 170>>, <<66, 1, 2>>, <<97, 98>>, <<95>>, <<255>>, <<129>>, <<249, 60, 0>>, <<161>>, <<28>>, <<96>>}
RECURSIVE Streams(_)
Streams(n) == IF n = 0 THEN {<<>>} ELSE LET S == Streams(n - 1) IN S \cup {s \o a : s \in S, a \in Alphabet}
(* plus truncated tails: the stream may end inside an item *)
AllStreams == LET S == Streams(MaxItems) IN S \cup {SubSeq(s, 1, Len(s) - 1) : s \in {t \in S : Len(t) > 0}}

Init == \E s \in AllStreams : SInit(s)
Next == \/ \E k \in 1..5 : Arrive(k)
        \/ \E req \in {BE(Buffered + 1, 4), Sat64(StreamDecode(Window, Buffered).full)} : Decode(req)
Spec == Init /\ [][Next]_svars
FairSpec == Spec /\ WF_svars(\E k \in 1..5 : Arrive(k)) /\ WF_svars(\E req \in {BE(Buffered + 1, 4), Sat64(StreamDecode(Window, Buffered).full)} : Decode(req))

Complete == <>(arrived = Len(stream) /\ (Toks(stream).end = "eof" => events = Toks(stream).evs))
=============================================================================
