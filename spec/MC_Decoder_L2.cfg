SPECIFICATION Spec
CONSTANTS
  L = 2
  MaxLen = 5
  MaxRefusals = 1
INVARIANT TypeOK
INVARIANT TwoOutcomes
INVARIANT AgreesInv
INVARIANT RefusalIsMemError
PROPERTY Progress
