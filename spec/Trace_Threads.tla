----------------------------- MODULE Trace_Threads -----------------------------
(* C17: the premises of CborThreads (under which MC_Threads shows every        *)
(* schedule race-free and every thread's result equal to its sequential        *)
(* result) as observed on the real library:                                    *)
(*  "globals": with the library's writable segments write-protected after      *)
(*     cbor_set_allocs, the whole single-threaded workload performs no store   *)
(*     to library-global state (and the device is live: a second               *)
(*     cbor_set_allocs does fault);                                            *)
(*  "thread" / "join": N threads on private data, allocator blocks never cross *)
(*     threads, every thread's digest equals its solo digest, the shared tree  *)
(*     read meanwhile is unchanged. Data races on the observed schedule are    *)
(*     reported by ThreadSanitizer (exit status, judged by the check).         *)
EXTENDS Naturals, Sequences, Json, IOUtils, TLC

TraceLog == ndJsonDeserialize(IOEnv.TRACE)
VARIABLE l
LineOK(ln) ==
  CASE ln.e = "globals" -> ln.segments >= 1 /\ ln.faults = 0 /\ ln.selftest /\ ln.live = 0 /\ ln.foreign = 0
    [] ln.e = "thread" -> ln.same                                    \* same results as running alone
    [] OTHER -> ln.cross = 0 /\ ln.foreign = 0 /\ ln.allocs = ln.frees /\ ln.shared_same
Init == l = 1
Next == l <= Len(TraceLog) /\ LineOK(TraceLog[l]) /\ l' = l + 1
Spec == Init /\ [][Next]_l
=============================================================================
