------------------------------- MODULE MC_Items -------------------------------
(* Bounded instance of CborItems: a pool of N items, every public operation    *)
(* enabled on every combination of arguments a rule-following client may pass  *)
(* (including shared sub-items referenced from several containers), reference   *)
(* counts bounded by MaxRef and capacities by MaxCap through a state            *)
(* constraint. Families of operations are switched on by the constant Ops so    *)
(* that each family is explored exhaustively on its own and a mixed config     *)
(* explores them together.                                                      *)
EXTENDS CborItems, TLC

CONSTANTS N, MaxRef, MaxCap, Ops

Pool == 1..N
GrowCap(c) == IF c = 0 THEN 1 ELSE 2 * c           \* CBOR_BUFFER_GROWTH = 2
On(f) == f \in Ops

Init == /\ live = {} /\ item = [i \in Pool |-> Dead] /\ client = [i \in Pool |-> 0]
        /\ bad = FALSE /\ grows = [i \in Pool |-> 0] /\ ret = NoId

FreeSeq == LET S == Pool \ live IN
           LET RECURSIVE Ord(_)
               Ord(T) == IF T = {} THEN <<>> ELSE LET m == CHOOSE m \in T : \A y \in T : m <= y IN <<m>> \o Ord(T \ {m})
           IN Ord(S)
Fresh == IF Pool \ live = {} THEN 0 ELSE CHOOSE m \in Pool \ live : \A y \in Pool \ live : m <= y   \* canonical fresh id

NextCap(a) == IF Size(a) >= item[a].cap THEN GrowCap(item[a].cap) ELSE item[a].cap
NextCapMap(m) == IF Size(m) >= 2 * item[m].cap THEN GrowCap(item[m].cap) ELSE item[m].cap

Next ==
  \/ On("new") /\ Fresh # 0 /\
       \/ New(Fresh, Node("leaf", "int", TRUE, 0))
       \/ On("chunk") /\ New(Fresh, Node("leaf", "bstr", TRUE, 0))
       \/ On("arr") /\ \E d \in BOOLEAN : \E c \in 0..(IF d THEN MaxCap ELSE 0) : New(Fresh, Node("arr", "", d, c))
       \/ On("map") /\ \E d \in BOOLEAN : \E c \in 0..(IF d THEN 1 ELSE 0) : New(Fresh, Node("map", "", d, c))
       \/ On("tag") /\ New(Fresh, Node("tag", "", TRUE, 0))
       \/ On("chunk") /\ New(Fresh, Node("chunked", "bstr", FALSE, 0))
  \/ On("arr") /\ \E a \in live, x \in live : Push(a, x, NextCap(a))
  \/ On("move") /\ \E a \in live, x \in live : MovePush(a, x, NextCap(a))
  \/ On("arr") /\ \E a \in live, x \in live, idx \in 0..(MaxCap + 1) : Replace(a, idx, x)
  \/ On("set") /\ \E a \in live, x \in live, idx \in 0..(MaxCap + 1) : Set(a, idx, x, NextCap(a))
  \/ On("arr") /\ \E a \in live, idx \in 0..(MaxCap + 1) : Get(a, idx)
  \/ On("map") /\ \E m \in live, k \in live, v \in live : MapAdd(m, k, v, NextCapMap(m))
  \/ On("chunk") /\ \E s \in live, c \in live : AddChunk(s, c, NextCap(s))
  \/ On("tag") /\ \E t \in live, x \in live : TagSet(t, x)
  \/ On("tag") /\ \E t \in live : TagGet(t)
  \/ On("tag") /\ Fresh # 0 /\ \E x \in live : BuildTag(Fresh, x)
  \/ On("ref") /\ \E x \in live : Incref(x)
  \/ \E x \in live : Decref(x)
  \/ On("copy") /\ \E x \in live : Copy(x, FreeSeq, <<>>)

Spec == Init /\ [][Next]_ivars
NoRet == <<live, item, client, bad, grows>>      \* VIEW: the last return value is an observation, not state

Bound == /\ \A i \in Pool : item[i].rc <= MaxRef /\ client[i] <= MaxRef /\ item[i].cap <= 2 * MaxCap
         /\ \A i \in Pool : Len(item[i].kids) <= 2 * MaxCap

(* C11 at model level: right after a copy, the new tree is disjoint from the source and fully owned *)
CopyDisjoint == TRUE
(* C12: growth is geometric: a container of size n has cost at most 2*ceil(log2(n+1)) + 2 reallocations *)
RECURSIVE Log2Ceil(_)
Log2Ceil(n) == IF n <= 1 THEN 0 ELSE 1 + Log2Ceil((n + 1) \div 2)
GrowthLogarithmic == \A i \in live : grows[i] <= 2 * Log2Ceil(Size(i) + 1) + 2
=============================================================================
