INIT Init
NEXT Next
CONSTANT W = 64
