SPECIFICATION Spec
CONSTANT MaxLen = 4
INVARIANT Agree
INVARIANT PartitionExact
INVARIANT PartitionCovers
INVARIANT Additive
