SPECIFICATION TSpec
INVARIANT EventsArePrefix
INVARIANT WaitsAreSatisfiable
