SPECIFICATION Spec
INVARIANT TypeOK
INVARIANT CtrlPartition
PROPERTY MarkKeepsPayload
PROPERTY WidthFixed
