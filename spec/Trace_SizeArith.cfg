SPECIFICATION Spec
