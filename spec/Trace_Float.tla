----------------------------- MODULE Trace_Float -----------------------------
(* C15: every recorded float case is judged against CborFloat: the decoded     *)
(* value (streaming callback, tree getter) is exactly the IEEE-754 value the   *)
(* bits denote at the recorded width; encoding it reproduces the bytes, NaN    *)
(* becoming the canonical quiet NaN of its width; the half encoder is total.   *)
EXTENDS CborFloat, Json, IOUtils, TLC

TraceLog == ndJsonDeserialize(IOEnv.TRACE)
VARIABLE l

Widen(f) == \* the double a (non-NaN) single denotes: sign, exponent rebias, mantissa shifted; subnormals normalised
  LET s == SSign(f)  e == SExp(f)  m == SMant(f) IN
  IF e = 0 /\ m = 0 THEN <<s * 128, 0, 0, 0, 0, 0, 0, 0>>
  ELSE IF e = 255 THEN <<s * 128 + 127, 240, 0, 0, 0, 0, 0, 0>>
  ELSE LET p == IF e = 0 THEN HiBit(m) ELSE 23
           de == IF e = 0 THEN p + 874 ELSE e + 896                          \* 1023 - 127 = 896; 2^(p-149) -> p - 149 + 1023
           frac == IF e = 0 THEN (m - Pow2(p)) * Pow2(23 - p) ELSE m          \* 23-bit fraction
       IN << s * 128 + de \div 16, (de % 16) * 16 + frac \div 524288, (frac \div 2048) % 256, (frac \div 8) % 256, (frac % 8) * 32, 0, 0, 0 >>

HalfOK(ln) ==
  /\ ln.read = 3 /\ ln.slot = "float2" /\ ln.w = 2
  /\ IF HalfIsNaN(ln.b)
       THEN /\ SingleIsNaN(ln.dec) /\ SingleIsNaN(ln.load) /\ DoubleIsNaN(ln.gen)
            /\ ln.enc = <<249>> \o CanonNaN16 /\ ln.ser = ln.enc /\ ln.built = ln.enc
       ELSE /\ ln.dec = HalfToSingle(ln.b) /\ ln.load = ln.dec           \* exactly the value the half denotes
            /\ ln.gen = Widen(ln.dec)
            /\ ln.enc = <<249>> \o ln.b /\ ln.ser = ln.enc /\ ln.built = ln.enc   \* and encoding reproduces the bytes
SingleOK(ln) ==
  /\ ln.read = 5 /\ ln.slot = "float4" /\ ln.w = 4
  /\ IF SingleIsNaN(ln.b)
       THEN /\ SingleIsNaN(ln.dec) /\ SingleIsNaN(ln.load)
            /\ ln.enc = <<250>> \o CanonNaN32 /\ ln.ser = ln.enc /\ ln.built = ln.enc
       ELSE /\ ln.dec = ln.b /\ ln.load = ln.b /\ ln.gen = Widen(ln.b)
            /\ ln.enc = <<250>> \o ln.b /\ ln.ser = ln.enc /\ ln.built = ln.enc
DoubleOK(ln) ==
  /\ ln.read = 9 /\ ln.slot = "float8" /\ ln.w = 8
  /\ IF DoubleIsNaN(ln.b)
       THEN /\ DoubleIsNaN(ln.dec) /\ DoubleIsNaN(ln.load)
            /\ ln.enc = <<251>> \o CanonNaN64 /\ ln.ser = ln.enc /\ ln.built = ln.enc
       ELSE /\ ln.dec = ln.b /\ ln.load = ln.b /\ ln.gen = ln.b
            /\ ln.enc = <<251>> \o ln.b /\ ln.ser = ln.enc /\ ln.built = ln.enc
(* totality of the half encoder on an arbitrary single; exact result where the value is half-representable *)
TotOK(ln) ==
  /\ ln.ret = 3 /\ Len(ln.out) = 3 /\ ln.out[1] = 249
  /\ (HalfRepresentable(ln.b) \/ SingleIsNaN(ln.b)) => ln.out = <<249>> \o EncodeHalfReq(ln.b)

(* the encoder of the item's width: 0 into a buffer one byte short, the full count into one that fits exactly *)
RoomOK(ln) == ln.enc_short = 0 /\ ln.enc_fit = ln.w + 1
LineOK(ln) == CASE ln.e = "half" -> HalfOK(ln) /\ RoomOK(ln) [] ln.e = "single" -> SingleOK(ln) /\ RoomOK(ln) [] ln.e = "double" -> DoubleOK(ln) /\ RoomOK(ln) [] OTHER -> TotOK(ln)
Init == l = 1
Next == l <= Len(TraceLog) /\ LineOK(TraceLog[l]) /\ l' = l + 1
Spec == Init /\ [][Next]_l
=============================================================================
