---------------------------- MODULE Trace_Sequence ----------------------------
(* C14: an item decodes independently of what follows it, and repeated loading *)
(* at an offset advanced by `read` splits a concatenation into its items.      *)
(* The expectation is computed by the reference decoder from the logged bytes. *)
EXTENDS CborLoadRef, Json, IOUtils, TLC

TraceLog == ndJsonDeserialize(IOEnv.TRACE)
TraceL == atoi(IOEnv.VERIF_L)
VARIABLE l

SuffixOK(ln) ==
  LET ref == LoadRef(ln.x, TraceL) IN
  /\ ref.ok                                         \* the generator only emits well-formed x within the limit
  /\ ln.a.ok /\ ln.b.ok                              \* x alone and x followed by y are both accepted ...
  /\ Eq(ln.a.read, BE(Len(ln.x), 4))                 \* ... reading exactly x ...
  /\ Eq(ln.b.read, ln.a.read)
  /\ TreeEqJ(ln.a.tree, ref.tree[1])      \* ... and yielding the tree x denotes
  /\ TreeEqJ(ln.b.tree, ref.tree[1])

SeqOK(ln) ==
  LET ref == Split(ln.buf, TraceL) IN
  /\ ref.stop = "end" /\ Len(ref.items) = Len(ln.lens)
  /\ ln.stop = "end" /\ ln.end = ln.total             \* finishes exactly at the end of the buffer
  /\ Len(ln.got) = Len(ln.lens)                       \* exactly those n items ...
  /\ \A i \in 1..Len(ln.got) :                        \* ... in order
        /\ ln.got[i].read = ln.lens[i] /\ ln.lens[i] = ref.items[i].n
        /\ TreeEqJ(ln.got[i].tree, ref.items[i].tree)

LineOK(ln) == IF ln.e = "suffix" THEN SuffixOK(ln) ELSE SeqOK(ln)

Init == l = 1
Next == l <= Len(TraceLog) /\ LineOK(TraceLog[l]) /\ l' = l + 1
Spec == Init /\ [][Next]_l
=============================================================================
