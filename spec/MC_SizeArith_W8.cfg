INIT Init
NEXT Next
CONSTANT W = 8
INVARIANT MulSound
INVARIANT AddExact
INVARIANT SigAddOK
INVARIANT AllocOK
INVARIANT GrowOK
