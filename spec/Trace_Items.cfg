SPECIFICATION TSpec
CONSTANTS
  NoId = 0
INVARIANT RcExact
INVARIANT ClientRefsLive
INVARIANT EdgesLive
INVARIANT FreedOnce
INVARIANT SizeWithinCap
INVARIANT Acyclic
INVARIANT GrowthLogarithmic
