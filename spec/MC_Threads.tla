------------------------------ MODULE MC_Threads ------------------------------
EXTENDS CborThreads
T3 == {"t1", "t2", "t3"}
T2 == {"t1", "t2"}
GoodProgs == [t \in T3 |-> <<PrivateOp(t), SharedRead(t), PrivateOp(t)>>]
BlipProgs == [t \in T2 |-> <<SharedReadWithRefcountBlip(t)>>]
ScratchProgs == [t \in T2 |-> <<OpWithStaticScratch(t)>>]
=============================================================================
