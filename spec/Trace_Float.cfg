SPECIFICATION Spec
