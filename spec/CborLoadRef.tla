----------------------------- MODULE CborLoadRef -----------------------------
(* The reference decoder as a function from bytes: RFC 8949 tokenisation      *)
(* (CborWire) followed by the declarative grammar. Used wherever a spec needs *)
(* "what these bytes denote" (C03 round trip, C14 sequences, C11, C16).       *)
EXTENDS CborGrammar, CborEvents

LoadRef(bytes, L) == Outcome(EventsOfBytes(bytes), L, FALSE, TRUE)

(* split a concatenation into its items: <<[tree, n], ...>> plus where and why it stopped *)
RECURSIVE SplitR(_, _, _, _)
SplitR(bytes, L, acc, off) ==
  IF bytes = <<>> THEN [items |-> acc, end |-> off, stop |-> "end"]
  ELSE LET r == LoadRef(bytes, L) IN
       IF r.ok THEN SplitR(SubSeq(bytes, r.pos + 1, Len(bytes)), L, Append(acc, [tree |-> r.tree[1], n |-> r.pos]), off + r.pos)
       ELSE [items |-> acc, end |-> off, stop |-> r.code]
Split(bytes, L) == SplitR(bytes, L, <<>>, 0)
=============================================================================
