SPECIFICATION FairSpec
CONSTANT MaxItems = 2
PROPERTY Complete
