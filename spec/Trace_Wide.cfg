SPECIFICATION Spec
