SPECIFICATION Spec
CONSTANT Wide = TRUE
INVARIANT RoundTrip
INVARIANT Stable
INVARIANT InDom
INVARIANT SizeContract
INVARIANT PrefixSoft
