SPECIFICATION Spec
CONSTANTS
  NoId = 0
  N = 3
  MaxRef = 3
  MaxCap = 2
  Ops = {"new", "tag", "ref"}
CONSTRAINT Bound
VIEW NoRet
INVARIANT RcExact
INVARIANT ClientRefsLive
INVARIANT EdgesLive
INVARIANT FreedOnce
INVARIANT NoLeak
INVARIANT SizeWithinCap
INVARIANT Acyclic
INVARIANT GrowthLogarithmic
