------------------------------ MODULE Trace_Wide ------------------------------
(* C02 for flat items with many members (counts around every power of two up  *)
(* to 2^16, thorough 2^20): one summary line per cbor_load of a well-formed    *)
(* array / map / chunked string of `count` members (h_load widesum). The       *)
(* step-by-step judges are quadratic in the member count, so here the harness  *)
(* reports what it observed (accepted, bytes read, members present, members    *)
(* that are not the i-th one written, blocks left) and the judgement is:       *)
(* accepted, read = encoded length, exactly count members, all in place.       *)
EXTENDS Naturals, Sequences, Json, IOUtils, TLC

TraceLog == ndJsonDeserialize(IOEnv.TRACE)
VARIABLE l

LineOK(ln) == /\ ln.e = "wide"
              /\ ln.ok /\ ln.code = "none"          \* well-formed, within the nesting limit, nothing refused: accepted
              /\ ln.read = ln.len                   \* the count of bytes read is the encoded length
              /\ ln.got = ln.count /\ ln.wrong = 0  \* every member, in order, owned once
              /\ ln.live = 0                        \* released completely
Init == l = 1
Next == l <= Len(TraceLog) /\ LineOK(TraceLog[l]) /\ l' = l + 1
Spec == Init /\ [][Next]_l
=============================================================================
