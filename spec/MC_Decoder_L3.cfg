SPECIFICATION Spec
CONSTANTS
  L = 3
  MaxLen = 5
  MaxRefusals = 1
INVARIANT TypeOK
INVARIANT TwoOutcomes
INVARIANT AgreesInv
INVARIANT RefusalIsMemError
PROPERTY Progress
