------------------------------- MODULE Bytes -------------------------------
(* Natural numbers as big-endian byte sequences.                              *)
(* TLC integers are 32-bit and ndJsonDeserialize wraps silently, so every     *)
(* quantity that can exceed 2^31-1 (arguments, lengths, `required`, sizes)    *)
(* is a sequence of bytes here and a JSON array of bytes in traces.           *)
(* Mirrors loaders.c:12-51 (big-endian loads) and encoders.c:12-99.           *)
EXTENDS Naturals, Sequences

Byte == 0..255

IsBytes(s) == \A i \in 1..Len(s) : s[i] \in Byte

Zeros(n) == [i \in 1..n |-> 0]

(* small value -> w bytes, big endian (v < 2^31) *)
RECURSIVE BEr(_, _)
BEr(v, w) == IF w = 0 THEN <<>> ELSE Append(BEr(v \div 256, w - 1), v % 256)
BE(v, w) == BEr(v, w)

(* bytes -> small value; only meaningful below 2^31 *)
RECURSIVE ValR(_, _)
ValR(s, acc) == IF s = <<>> THEN acc ELSE ValR(Tail(s), acc * 256 + Head(s))
Val(s) == ValR(s, 0)

(* drop leading zero bytes *)
RECURSIVE Strip(_)
Strip(s) == IF s = <<>> THEN <<>> ELSE IF Head(s) = 0 THEN Strip(Tail(s)) ELSE s

(* left-pad with zeros to width w (s must fit) *)
Pad(s, w) == LET t == Strip(s) IN Zeros(w - Len(t)) \o t

Fits(s, w) == Len(Strip(s)) <= w

(* TRUE iff the value is below 2^31, i.e. Val() is exact *)
Small(s) == LET t == Strip(s) IN Len(t) < 4 \/ (Len(t) = 4 /\ t[1] < 128)

(* lexicographic compare of equal-length sequences: -1, 0, 1 (as 0,1,2) *)
RECURSIVE CmpEq(_, _)
CmpEq(a, b) == IF a = <<>> THEN 1
               ELSE IF Head(a) < Head(b) THEN 0
               ELSE IF Head(a) > Head(b) THEN 2
               ELSE CmpEq(Tail(a), Tail(b))
Cmp(a, b) == LET x == Strip(a)  y == Strip(b) IN
             IF Len(x) < Len(y) THEN 0 ELSE IF Len(x) > Len(y) THEN 2 ELSE CmpEq(x, y)
Lt(a, b)  == Cmp(a, b) = 0
Leq(a, b) == Cmp(a, b) # 2
Gt(a, b)  == Cmp(a, b) = 2
Geq(a, b) == Cmp(a, b) # 0
Eq(a, b)  == Cmp(a, b) = 1

(* addition of two byte numbers, exact, result stripped *)
RECURSIVE AddR(_, _, _, _)
AddR(a, b, i, carry) ==
  \* a, b padded to the same length n; i counts from n down to 1
  IF i = 0 THEN (IF carry = 0 THEN <<>> ELSE <<carry>>)
  ELSE LET s == a[i] + b[i] + carry IN Append(AddR(a, b, i - 1, s \div 256), s % 256)
Max2(x, y) == IF x > y THEN x ELSE y
Add(a, b) == LET n == Max2(Len(Strip(a)), Len(Strip(b))) IN
             Strip(AddR(Pad(a, n), Pad(b, n), n, 0))

AddSmall(a, k) == Add(a, BE(k, 4))

(* a - b for a >= b *)
RECURSIVE SubR(_, _, _, _)
SubR(a, b, i, borrow) ==
  IF i = 0 THEN <<>>
  ELSE LET d == a[i] - b[i] - borrow IN
       IF d >= 0 THEN Append(SubR(a, b, i - 1, 0), d)
                 ELSE Append(SubR(a, b, i - 1, 1), d + 256)
Sub(a, b) == LET n == Max2(Len(Strip(a)), Len(Strip(b))) IN
             Strip(SubR(Pad(a, n), Pad(b, n), n, 0))

(* multiply by a small constant k (k < 2^15) *)
RECURSIVE MulSmallR(_, _, _, _)
MulSmallR(a, k, i, carry) ==
  IF i = 0 THEN (IF carry = 0 THEN <<>> ELSE BE(carry, 3))
  ELSE LET p == a[i] * k + carry IN Append(MulSmallR(a, k, i - 1, p \div 256), p % 256)
MulSmall(a, k) == Strip(MulSmallR(a, k, Len(a), 0))

(* a * b, exact, for byte numbers of any size *)
RECURSIVE MulR(_, _, _, _)
MulR(a, b, i, acc) == IF i > Len(b) THEN acc ELSE MulR(a, b, i + 1, Add(acc \o <<0>>, MulSmall(a, b[i])))
Mul(a, b) == Strip(MulR(Strip(a), Strip(b), 1, <<>>))

(* 2^64 - 1 *)
Max64 == [i \in 1..8 |-> 255]
(* saturate to 64 bits *)
Sat64(a) == IF Fits(a, 8) THEN Strip(a) ELSE Max64
(* truncate to 64 bits (wrap) *)
Wrap64(a) == LET t == Strip(a) IN
             IF Len(t) <= 8 THEN t ELSE Strip(SubSeq(t, Len(t) - 7, Len(t)))

(* number of argument bytes in the shortest CBOR head for value a: 0,1,2,4,8 *)
ShortestArgw(a) == LET t == Strip(a) IN
  IF Len(t) = 0 THEN 0
  ELSE IF Len(t) = 1 THEN (IF t[1] <= 23 THEN 0 ELSE 1)
  ELSE IF Len(t) = 2 THEN 2
  ELSE IF Len(t) <= 4 THEN 4
  ELSE 8
=============================================================================
