----------------------------- MODULE CborDecoder -----------------------------
(* The tree decoder cbor_load (cbor.c:12-115) with its builder callbacks       *)
(* (builder_callbacks.c:24-422) and decoding stack (stack.c): a stack machine   *)
(* consuming one item head per step. Written to be bound to the code: one       *)
(* action per loop iteration (= one hook line), the callback bodies as the      *)
(* operator Steps, _cbor_builder_append's pop chain as AppendR, the flag poll    *)
(* and the error exit that unwinds the stack as separate actions.               *)
EXTENDS CborGrammar, FiniteSets

CONSTANT L               \* CBOR_MAX_STACK_SIZE

VARIABLES status,        \* "idle" | "run" | "unwind" | "returned"
          len,           \* input length in bytes
          pos,           \* result->read: bytes consumed so far
          stack,         \* decoding stack, bottom first; frames [t, def, rem, items, v]
          root,          \* <<>> or <<tree>>: context.root
          cf, se,        \* context.creation_failed, context.syntax_error
          last,          \* status of the last wire step: "none" | "fin" | "nedata" | "error"
          result,        \* [ok, code, pos, tree] once status = "returned" (or while unwinding)
          refusals,      \* ghost: number of allocation refusals suffered
          chain,         \* ghost: longest pop chain of _cbor_builder_append so far
          eager          \* which of the two permitted policies this decoder follows for a frame-opening
                         \* non-chunk head inside a chunked string: TRUE = reject at once, FALSE = push it
                         \* and reject when it completes (what cbor_load does today). Fixed per load.

dvars == <<status, len, pos, stack, root, cf, se, last, result, refusals, chain, eager>>

Frame(t, def, rem, v) == [t |-> t, def |-> def, rem |-> rem, items |-> <<>>, v |-> v]
Top(st) == st[Len(st)]
Pop(st) == SubSeq(st, 1, Len(st) - 1)
IsChunkFrame(f) == f.t \in {"bstr", "tstr"}

M(st, rt, c, s, ch) == [stack |-> st, root |-> rt, cf |-> c, se |-> s, chain |-> ch]

(* _cbor_builder_append (builder_callbacks.c:24-114): hand a completed item to whatever is open. *)
(* ch counts the levels of the pop chain (recursion depth of the C function).                    *)
RECURSIVE AppendR(_, _, _)
AppendR(st, item, ch) ==
  IF st = <<>> THEN M(<<>>, <<item>>, FALSE, FALSE, ch)                       \* top-level item
  ELSE LET top == Top(st)  rest == Pop(st) IN
    CASE top.t = "arr" ->
           LET f == [top EXCEPT !.items = Append(@, item), !.rem = IF top.def THEN @ - 1 ELSE @] IN
           IF top.def /\ f.rem = 0
             THEN AppendR(rest, Mk("arr", 0, TRUE, <<>>, f.items), ch + 1)      \* full: pop and propagate
             ELSE M(Append(rest, f), <<>>, FALSE, FALSE, ch)
      [] top.t = "map" ->
           LET f == [top EXCEPT !.items = Append(@, item), !.rem = IF top.def THEN @ - 1 ELSE @] IN
           IF top.def /\ f.rem = 0
             THEN AppendR(rest, Mk("map", 0, TRUE, <<>>, f.items), ch + 1)
             ELSE M(Append(rest, f), <<>>, FALSE, FALSE, ch)
      [] top.t = "tag" -> AppendR(rest, Mk("tag", 0, TRUE, top.v, <<item>>), ch + 1)
      [] OTHER -> M(st, <<>>, FALSE, TRUE, ch)     \* a chunked string is open: nothing to append to

Refuse(m) == [m EXCEPT !.cf = TRUE]

(* PUSH_CTX_STACK / _cbor_stack_push: refuses exactly when the stack holds L frames *)
Push(m, f) == IF Len(m.stack) = L THEN Refuse(m) ELSE [m EXCEPT !.stack = Append(@, f)]

WithAppend(m, item) ==
  LET r == AppendR(m.stack, item, 0) IN
  [stack |-> r.stack, root |-> IF r.root = <<>> THEN m.root ELSE r.root, cf |-> m.cf, se |-> m.se \/ r.se,
   chain |-> IF r.chain > m.chain THEN r.chain ELSE m.chain]

(* The callbacks. Returns the SET of machine states the head may lead to:                       *)
(*  - refused = TRUE: some allocation request of this head was refused => creation_failed       *)
(*  - a non-chunk head that opens a frame while a chunked string is open may be rejected at      *)
(*    once (EagerReject) or pushed and rejected when it completes (LazyPush, what the code does) *)
Steps(m, e, refused, eagerMode) ==
  IF refused THEN {Refuse(m)}
  ELSE LET inChunks == m.stack # <<>> /\ IsChunkFrame(Top(m.stack)) IN
  CASE e.k \in LeafK ->
         IF e.k \in {"bstr", "tstr"} /\ inChunks /\ Top(m.stack).t = e.k
           THEN {[m EXCEPT !.stack[Len(m.stack)].items = Append(@, e.leaf)]}       \* extend the chunked string
           ELSE {WithAppend(m, e.leaf)}
    [] e.k \in {"arr", "map"} /\ e.cnt = 0 -> {WithAppend(m, Mk(e.k, 0, TRUE, <<>>, <<>>))}
    [] e.k = "break" ->
         IF m.stack # <<>> /\ ~Top(m.stack).def /\ (Top(m.stack).t # "map" \/ Len(Top(m.stack).items) % 2 = 0)
           THEN LET top == Top(m.stack) IN
                {WithAppend([m EXCEPT !.stack = Pop(m.stack)], Mk(top.t, 0, FALSE, <<>>, top.items))}
           ELSE {[m EXCEPT !.se = TRUE]}
    [] OTHER ->  \* heads that open a frame
         LET f == CASE e.k = "arr" -> Frame("arr", TRUE, e.cnt, <<>>)
                    [] e.k = "map" -> Frame("map", TRUE, 2 * e.cnt, <<>>)
                    [] e.k = "tag" -> Frame("tag", TRUE, 1, e.v)
                    [] e.k = "iarr" -> Frame("arr", FALSE, 0, <<>>)
                    [] e.k = "imap" -> Frame("map", FALSE, 0, <<>>)
                    [] e.k = "bstart" -> Frame("bstr", FALSE, 0, <<>>)
                    [] OTHER -> Frame("tstr", FALSE, 0, <<>>)
         IN IF inChunks /\ eagerMode THEN {[m EXCEPT !.se = TRUE]} ELSE {Push(m, f)}

CurM == M(stack, root, cf, se, chain)

(* is the loop of cbor_load at a point where it leaves? (cbor.c:61-101) *)
Leaving == \/ last \in {"nedata", "error"}
           \/ cf \/ se
           \/ (last = "fin" /\ stack = <<>>)
           \/ pos >= len                                \* window exhausted: NOTENOUGHDATA

(* the result cbor_load reports when it leaves in the current state *)
Verdict ==
  IF last = "nedata" THEN [ok |-> FALSE, code |-> "nedata", pos |-> pos, tree |-> <<>>]
  ELSE IF last = "error" THEN [ok |-> FALSE, code |-> "malformed", pos |-> pos, tree |-> <<>>]
  ELSE IF cf THEN [ok |-> FALSE, code |-> "mem", pos |-> pos, tree |-> <<>>]        \* creation flag first
  ELSE IF se THEN [ok |-> FALSE, code |-> "syntax", pos |-> pos, tree |-> <<>>]
  ELSE IF last = "fin" /\ stack = <<>> THEN [ok |-> TRUE, code |-> "none", pos |-> pos, tree |-> root]
  ELSE [ok |-> FALSE, code |-> "nedata", pos |-> pos, tree |-> <<>>]

(* ------------------------------------------------------------------ actions *)
Idle == /\ status = "idle" /\ pos = 0 /\ stack = <<>> /\ root = <<>> /\ cf = FALSE /\ se = FALSE /\ last = "none"
        /\ result = [ok |-> FALSE, code |-> "unwritten", pos |-> 0, tree |-> <<>>]
        /\ refusals = 0 /\ chain = 0 /\ eager \in BOOLEAN

(* cbor.c:48-51 *)
NoData == /\ status = "idle" /\ len = 0
          /\ status' = "returned"
          /\ result' = [ok |-> FALSE, code |-> "nodata", pos |-> 0, tree |-> <<>>]
          /\ UNCHANGED <<len, pos, stack, root, cf, se, last, refusals, chain, eager>>

(* cbor.c:52-59 *)
Start == /\ status = "idle" /\ len > 0
         /\ status' = "run"
         /\ UNCHANGED <<len, pos, stack, root, cf, se, last, result, refusals, chain, eager>>

(* one loop iteration: cbor_stream_decode on the window at pos, the callback it fires *)
OnHead(e, refused) ==
  /\ status = "run" /\ ~Leaving
  /\ last' = e.st
  /\ IF e.st = "fin"
       THEN /\ pos + e.n <= len                        \* reads only inside the caller's buffer
            /\ pos' = pos + e.n
            /\ \E m2 \in Steps(CurM, e, refused, eager) :
                  /\ stack' = m2.stack /\ root' = m2.root /\ cf' = m2.cf /\ se' = m2.se /\ chain' = m2.chain
            /\ refusals' = IF refused THEN refusals + 1 ELSE refusals
       ELSE UNCHANGED <<pos, stack, root, cf, se, chain, refusals>>
  /\ UNCHANGED <<status, len, result, eager>>

(* leave the loop: success returns at once; failure goes through the unwinding exit *)
Leave == /\ status = "run" /\ Leaving
         /\ result' = Verdict
         /\ status' = IF Verdict.ok \/ stack = <<>> THEN "returned" ELSE "unwind"
         /\ UNCHANGED <<len, pos, stack, root, cf, se, last, refusals, chain, eager>>

(* cbor.c:105-114: decref the top item, pop, repeat *)
Unwind == /\ status = "unwind"
          /\ stack' = Pop(stack)
          /\ status' = IF Len(stack) = 1 THEN "returned" ELSE "unwind"
          /\ UNCHANGED <<len, pos, root, cf, se, last, result, refusals, chain, eager>>

(* ------------------------------------------------------------------ properties of the machine *)
TypeOK == /\ status \in {"idle", "run", "unwind", "returned"}
          /\ Len(stack) <= L /\ chain <= L
          /\ pos <= len \/ len = 0

(* C01: there are exactly two outcomes, and nothing of the stack survives the call *)
TwoOutcomes == status = "returned" =>
     /\ stack = <<>>
     /\ result.code # "unwritten"
     /\ (result.ok <=> (result.code = "none" /\ result.tree # <<>>))
     /\ (~result.ok => result.tree = <<>>)

(* C02/C05/C19: the stack algorithm and the grammar agree (when no allocation was refused) *)
Agrees(evs) == (status = "returned" /\ refusals = 0) =>
     LET eof == pos >= len
         adm == IF len = 0 THEN {[ok |-> FALSE, code |-> "nodata", pos |-> 0, tree |-> <<>>]}
                ELSE {Outcome(evs, L, ~eager, eof)}
     IN result \in adm /\ adm \subseteq Admissible(evs, L, eof)

(* C05/C06: a refused allocation is reported as MEMERROR just past that head *)
RefusalIsMemError == (status = "returned" /\ refusals > 0) => (~result.ok /\ result.code = "mem" /\ result.pos = pos)

(* C01: every iteration makes progress or leaves *)
Progress == [][status = "run" /\ status' = "run" => (pos' > pos \/ last' \in {"nedata", "error"})]_dvars
=============================================================================
