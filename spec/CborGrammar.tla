----------------------------- MODULE CborGrammar -----------------------------
(* Declarative reference for cbor_load (properties C02, C05, C14, C19): a      *)
(* recursive descent over the sequence of item heads, transcribed from the     *)
(* data-item grammar of RFC 8949 section 3 / Appendix C and from the            *)
(* statements of C02/C05. It shares nothing with the stack algorithm of         *)
(* CborDecoder; MC_Decoder checks that the two agree on every head string       *)
(* within the bound, and Trace_Decoder uses it to judge real executions.        *)
(*                                                                              *)
(* A head event is a record                                                     *)
(*   st   : "fin" (complete head, + payload for definite strings)               *)
(*          "nedata" (input ends inside this head or its payload)               *)
(*          "error" (reserved / unsupported initial byte)                       *)
(*   k    : kind (CborWire.Kind)           cnt : entries of a definite array/map *)
(*   n    : bytes the head (+payload) occupies     v : tag number               *)
(*   leaf : the tree a scalar / definite string head denotes                    *)
(* A context c = [s, o, L, lazy, eof]: the events, o[i] = byte offset of head i *)
(* (o[Len(s)+1] = end of the last head), the nesting limit, whether the         *)
(* permitted late report inside chunked strings is used, and whether the input  *)
(* ends after the last event.                                                   *)
EXTENDS CborTree

LeafK == {"uint", "negint", "bstr", "tstr", "false", "true", "null", "undef", "f16", "f32", "f64"}
OpensLevel(e) == e.k \in {"bstart", "tstart", "iarr", "imap", "tag"} \/ (e.k \in {"arr", "map"} /\ e.cnt > 0)

Er(code, pos) == [ok |-> FALSE, code |-> code, pos |-> pos, next |-> 0, tree |-> <<>>, items |-> <<>>]
Ok(next, tree) == [ok |-> TRUE, code |-> "none", pos |-> 0, next |-> next, tree |-> <<tree>>, items |-> <<>>]
OkItems(next, items) == [ok |-> TRUE, code |-> "none", pos |-> 0, next |-> next, tree |-> <<>>, items |-> items]

(* the input is exhausted where a head is expected: NOTENOUGHDATA at that offset; "unknown" if the *)
(* recorded events stop although the input does not (the decoder under test stopped too early)      *)
EndOf(c, i) == IF c.eof THEN Er("nedata", c.o[i]) ELSE Er("unknown", c.o[i])

RECURSIVE Item(_, _, _), Kids(_, _, _, _, _), Indef(_, _, _, _, _), Chunks(_, _, _, _, _)

Item(c, i, d) ==
  IF i > Len(c.s) THEN EndOf(c, i) ELSE
  LET e == c.s[i] IN
  IF e.st = "nedata" THEN Er("nedata", c.o[i])          \* first incomplete head
  ELSE IF e.st = "error" THEN Er("malformed", c.o[i])   \* at the offset of the reserved byte
  ELSE IF e.k = "break" THEN Er("syntax", c.o[i + 1])   \* break where an item is expected
  ELSE IF e.k \in LeafK THEN Ok(i + 1, e.leaf)
  ELSE IF e.k \in {"arr", "map"} /\ e.cnt = 0 THEN Ok(i + 1, Mk(e.k, 0, TRUE, <<>>, <<>>))   \* never opens a level
  ELSE IF d = c.L THEN Er("mem", c.o[i + 1])            \* would open level L+1
  ELSE CASE e.k = "arr" -> LET r == Kids(c, i + 1, d + 1, e.cnt, <<>>) IN
                           IF r.ok THEN Ok(r.next, Mk("arr", 0, TRUE, <<>>, r.items)) ELSE r
         [] e.k = "map" -> LET r == Kids(c, i + 1, d + 1, 2 * e.cnt, <<>>) IN
                           IF r.ok THEN Ok(r.next, Mk("map", 0, TRUE, <<>>, r.items)) ELSE r
         [] e.k = "tag" -> LET r == Kids(c, i + 1, d + 1, 1, <<>>) IN
                           IF r.ok THEN Ok(r.next, Mk("tag", 0, TRUE, e.v, r.items)) ELSE r
         [] e.k \in {"iarr", "imap"} -> Indef(c, i + 1, d + 1, e.k, <<>>)
         [] OTHER -> Chunks(c, i + 1, d + 1, e.k, <<>>)          \* bstart / tstart

Kids(c, i, d, n, acc) ==
  IF n = 0 THEN OkItems(i, acc)
  ELSE LET r == Item(c, i, d) IN
       IF r.ok THEN Kids(c, r.next, d, n - 1, Append(acc, r.tree[1])) ELSE r

Indef(c, i, d, k, acc) ==
  IF i > Len(c.s) THEN EndOf(c, i) ELSE
  LET e == c.s[i] IN
  IF e.st = "fin" /\ e.k = "break" THEN
     IF k = "imap" /\ Len(acc) % 2 = 1 THEN Er("syntax", c.o[i + 1])     \* a key without its value
     ELSE Ok(i + 1, Mk(IF k = "iarr" THEN "arr" ELSE "map", 0, FALSE, <<>>, acc))
  ELSE LET r == Item(c, i, d) IN
       IF r.ok THEN Indef(c, r.next, d, k, Append(acc, r.tree[1])) ELSE r

Chunks(c, i, d, k, acc) ==
  IF i > Len(c.s) THEN EndOf(c, i) ELSE
  LET e == c.s[i]
      want == IF k = "bstart" THEN "bstr" ELSE "tstr" IN
  IF e.st = "nedata" THEN Er("nedata", c.o[i])
  ELSE IF e.st = "error" THEN Er("malformed", c.o[i])
  ELSE IF e.k = "break" THEN Ok(i + 1, Mk(want, 0, FALSE, <<>>, acc))
  ELSE IF e.k = want THEN Chunks(c, i + 1, d, k, Append(acc, e.leaf))
  ELSE IF ~OpensLevel(e) \/ ~c.lazy THEN Er("syntax", c.o[i + 1])          \* eager report
  ELSE LET r == Item(c, i, d) IN                                           \* permitted late report:
       IF r.ok THEN Er("syntax", c.o[r.next]) ELSE r                       \* when that item completes, or the
                                                                           \* input ends, or at the first error in it

RECURSIVE OffsR(_, _, _)
OffsR(s, i, acc) == IF i > Len(s) THEN acc ELSE OffsR(s, i + 1, Append(acc, acc[Len(acc)] + s[i].n))
Offs(s) == OffsR(s, 1, <<0>>)

Ctx(s, L, lazy, eof) == [s |-> s, o |-> Offs(s), L |-> L, lazy |-> lazy, eof |-> eof]

(* what cbor_load must report: [ok, code, pos, tree] with pos = bytes read on success *)
Outcome(s, L, lazy, eof) ==
  IF s = <<>> /\ eof THEN [ok |-> FALSE, code |-> "nodata", pos |-> 0, tree |-> <<>>]
  ELSE LET c == Ctx(s, L, lazy, eof)
           r == Item(c, 1, 0) IN
       IF r.ok THEN [ok |-> TRUE, code |-> "none", pos |-> c.o[r.next], tree |-> r.tree]
       ELSE [ok |-> FALSE, code |-> r.code, pos |-> r.pos, tree |-> <<>>]

(* the context (offsets) is built once and shared by both readings *)
OutcomeC(c) ==
  IF c.s = <<>> /\ c.eof THEN [ok |-> FALSE, code |-> "nodata", pos |-> 0, tree |-> <<>>]
  ELSE LET r == Item(c, 1, 0) IN
       IF r.ok THEN [ok |-> TRUE, code |-> "none", pos |-> c.o[r.next], tree |-> r.tree]
       ELSE [ok |-> FALSE, code |-> r.code, pos |-> r.pos, tree |-> <<>>]
AdmC(c) == {OutcomeC(c), OutcomeC([c EXCEPT !.lazy = TRUE])}
Admissible(s, L, eof) == AdmC(Ctx(s, L, FALSE, eof))
=============================================================================
