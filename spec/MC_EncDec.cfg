SPECIFICATION Spec
INVARIANT KindOK
INVARIANT WidthOK
INVARIANT ValueOK
