INIT Init
NEXT Next
CONSTANT W = 4
INVARIANT MulSound
INVARIANT AddExact
INVARIANT SigAddOK
INVARIANT AllocOK
INVARIANT GrowOK
