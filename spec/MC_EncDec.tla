------------------------------ MODULE MC_EncDec ------------------------------
(* C10 at the level of the specification: for every encoder and every value   *)
(* of the bounded domain, the bytes CborEncode demands decode -- by the        *)
(* independently written CborWire -- to the head of the matching kind with     *)
(* the identical value, consuming exactly those bytes. Two halves of the spec  *)
(* written from different parts of the RFC check each other.                   *)
EXTENDS CborEncode, CborWire, TLC

VARIABLES f, a

Pow2s == {2^k : k \in 0..30}
Bnd32 == {<<x, y, z, t>> : x \in {0, 1, 127, 128, 255}, y \in {0, 255}, z \in {0, 1, 255}, t \in {0, 23, 24, 255}}
Bnd64 == {<<x, 0, 0, y, z, 0, 1, t>> : x \in {0, 1, 128, 255}, y \in {0, 255}, z \in {0, 1, 255}, t \in {0, 23, 24, 255}}
          \cup {[i \in 1..8 |-> 255], [i \in 1..8 |-> 0]}
V8 == {<<v>> : v \in 0..255}
V16 == {<<x, y>> : x \in 0..255, y \in {0, 1, 23, 24, 127, 128, 254, 255}}
VAny == V8 \cup V16 \cup Bnd32 \cup Bnd64

Halves == {HalfOfInt(x) : x \in {0, 1, 2, 1023, 1024, 1025, 15360, 31743, 31744, 32768, 32769, 33792, 64511, 64512}
                                \cup {1024 * e + m : e \in 0..31, m \in {0, 1, 512, 1023}}}

Domain(g) == CASE g \in {"uint8", "negint8", "ctrl"} -> V8
               [] g \in {"uint16", "negint16"} -> V16
               [] g \in {"uint32", "negint32"} -> Bnd32
               [] g \in {"uint64", "negint64"} -> Bnd64
               [] g \in {"uint", "negint", "bytestring_start", "string_start", "array_start", "map_start", "tag"} -> VAny
               [] g = "bool" -> {<<>>, <<1>>}
               [] g = "half" -> {HalfToSingle(h) : h \in {h \in Halves : ~HalfIsNaN(h)}} \cup {<<127, 192, 0, 1>>, <<255, 128, 0, 1>>}
               [] g = "single" -> Bnd32 \cup {<<127, 128, 0, 1>>, <<127, 192, 0, 0>>, <<255, 255, 255, 255>>}
               [] g = "double" -> Bnd64 \cup {<<127, 240, 0, 0, 0, 0, 0, 1>>, <<127, 248, 0, 0, 0, 0, 0, 0>>}
               [] OTHER -> {<<>>}

Encoders == {"uint8", "uint16", "uint32", "uint64", "uint", "negint8", "negint16", "negint32", "negint64", "negint",
             "bytestring_start", "string_start", "array_start", "map_start", "tag",
             "indef_bytestring_start", "indef_string_start", "indef_array_start", "indef_map_start",
             "bool", "null", "undef", "break", "ctrl", "half", "single", "double"}

Init == f \in Encoders /\ a \in Domain(f)
Next == UNCHANGED <<f, a>>
Spec == Init /\ [][Next]_<<f, a>>

Out == EncoderBytes(f, a)
D == StreamDecode(Out, Len(Out))

ExpectKind == CASE f \in {"uint8", "uint16", "uint32", "uint64", "uint"} -> "uint"
                [] f \in {"negint8", "negint16", "negint32", "negint64", "negint"} -> "negint"
                [] f = "bytestring_start" -> "bstr" [] f = "string_start" -> "tstr"
                [] f = "array_start" -> "arr" [] f = "map_start" -> "map" [] f = "tag" -> "tag"
                [] f = "indef_bytestring_start" -> "bstart" [] f = "indef_string_start" -> "tstart"
                [] f = "indef_array_start" -> "iarr" [] f = "indef_map_start" -> "imap"
                [] f = "bool" -> (IF a = <<>> THEN "false" ELSE "true")
                [] f = "null" -> "null" [] f = "undef" -> "undef" [] f = "break" -> "break"
                [] f = "half" -> "f16" [] f = "single" -> "f32" [] f = "double" -> "f64"
                [] OTHER -> \* ctrl
                   (LET v == Val(a) IN CASE v = 20 -> "false" [] v = 21 -> "true" [] v = 22 -> "null" [] v = 23 -> "undef" [] OTHER -> "rsv")

(* the head is well-formed, of the right kind, and the right width *)
KindOK == Kind(Out[1]) = ExpectKind /\ 1 + Argw(Out[1]) = Len(Out)
WidthOK ==
  CASE f \in {"uint16", "negint16"} -> Len(Out) = 3
    [] f \in {"uint32", "negint32", "single"} -> Len(Out) = 5
    [] f \in {"uint64", "negint64", "double"} -> Len(Out) = 9
    [] f = "half" -> Len(Out) = 3
    [] f \in {"uint8", "negint8", "ctrl"} -> Len(Out) = (IF Val(a) <= 23 THEN 1 ELSE 2)
    [] f \in {"uint", "negint", "bytestring_start", "string_start", "array_start", "map_start", "tag"} ->
         Len(Out) = 1 + ShortestArgw(a) /\ (\A w \in {0, 1, 2, 4, 8} : (w < ShortestArgw(a)) => ~Fits(a, w) \/ (w = 0 /\ Val(Pad(a, 1)) > 23))
    [] OTHER -> Len(Out) = 1
(* decoding gives the value back *)
ValueOK ==
  IF ExpectKind = "rsv" THEN D.st = "error"
  ELSE IF f \in {"bytestring_start", "string_start"} /\ Strip(a) # <<>>
       THEN D.st = "nedata" /\ Eq(D.full, AddSmall(a, Len(Out)))     \* head complete, exactly `a` payload bytes awaited
  ELSE /\ D.st = "fin" /\ D.read = Len(Out)
       /\ CASE f = "half" -> (IF SingleIsNaN(a) THEN D.arg = CanonNaN16 ELSE HalfToSingle(D.arg) = a)
            [] f = "single" -> (IF SingleIsNaN(a) THEN D.arg = CanonNaN32 ELSE D.arg = a)
            [] f = "double" -> (IF DoubleIsNaN(a) THEN D.arg = CanonNaN64 ELSE D.arg = a)
            [] f \in {"bool", "null", "undef", "break", "ctrl", "indef_bytestring_start", "indef_string_start", "indef_array_start", "indef_map_start"} -> TRUE
            [] OTHER -> Eq(D.arg, a)
=============================================================================
