SPECIFICATION Spec
CONSTANTS
  Threads <- T3
  Progs <- GoodProgs
INVARIANT NoRace
INVARIANT AsIfAlone
