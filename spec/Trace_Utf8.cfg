SPECIFICATION Spec
