INIT Init
NEXT Next
INVARIANT MulSound
INVARIANT MulNotTooStrict
INVARIANT GrowSound
INVARIANT ProdIsProduct
INVARIANT HBAgrees
