SPECIFICATION Spec
