SPECIFICATION Spec
CONSTANT MaxItems = 3
INVARIANT EventsArePrefix
INVARIANT WaitsAreSatisfiable
INVARIANT Delivered
