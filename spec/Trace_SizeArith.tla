--------------------------- MODULE Trace_SizeArith ---------------------------
(* C20 conformance. Operands and results are byte numbers (any width), the     *)
(* word width W of the compiled code is in every line (8 and 16: the real      *)
(* memory_utils.c compiled with a narrow size_t; 64: the library as built).    *)
(* Judged is what the property states: an accepted product or sum never        *)
(* wraps, an allocation request is at least n*s or is not made, growth never   *)
(* yields a smaller capacity, a computed size is the exact total or 0.         *)
EXTENDS Bytes, Json, IOUtils, TLC

TraceLog == ndJsonDeserialize(IOEnv.TRACE)
VARIABLE l

FitsW(x, W) == Fits(x, W \div 8)
(* one call of each guard function on (a, b) *)
MuOK(ln) ==
  LET prod == Mul(ln.a, ln.b)  sum == Add(ln.a, ln.b)  W == ln.W IN
  /\ ln.mul => FitsW(prod, W)                                  \* _cbor_safe_to_multiply says yes only if a*b fits
  /\ ln.add => FitsW(sum, W)                                   \* _cbor_safe_to_add says yes only if a+b fits
  /\ (Strip(ln.sig) = <<>> \/ (Eq(ln.sig, sum) /\ FitsW(sum, W)))  \* the signalling add: the exact total or 0 ...
  /\ ((Strip(ln.a) = <<>> \/ Strip(ln.b) = <<>>) => Strip(ln.sig) = <<>>)   \* ... and 0 is absorbing
  /\ (ln.acalled => Geq(ln.areq, prod) /\ FitsW(prod, W))                  \* malloc asked for at least a*b (it may still refuse) ...
  /\ (~ln.acalled => ~ln.aret)                                 \* ... or not at all, and then the call fails
  /\ (ln.rcalled => Geq(ln.rreq, prod) /\ FitsW(prod, W))
  /\ (~ln.rcalled => ~ln.rret)
(* public API with a declared count n of elements of size s *)
E2eOK(ln) == ln.ok => (ln.called /\ Geq(ln.req, Mul(ln.n, ln.s)))             \* obtains at least n*s bytes, or fails
(* growth of a container whose capacity is cap *)
GrowOK(ln) == ln.ok => (Gt(ln.newcap, ln.cap) /\ ln.called /\ Geq(ln.req, Mul(ln.newcap, ln.s)))
(* serialized size of an indefinite string whose chunks have the given lengths *)
RECURSIVE Total(_, _, _)
Total(lens, k, acc) == IF k > Len(lens) THEN acc
                       ELSE Total(lens, k + 1, Add(acc, AddSmall(lens[k], 1 + ShortestArgw(lens[k]))))
SerSizeOK(ln) == LET t == AddSmall(MulSmall(Total(ln.lens, 1, <<2>>), ln.mult), ln.wrap) IN   \* (the string occurs mult times inside wrappers adding wrap bytes)
                 IF Fits(t, 8) THEN Eq(ln.size, t) ELSE Strip(ln.size) = <<>>   \* the exact mathematical total, or 0

(* a definite string head (1 + 8 bytes) declaring n payload bytes, seen through a window of win bytes: the decoder may report *)
(* the string as present only if head + payload really fit; otherwise it asks for more than it was given                    *)
ClaimOK(ln) == LET need == AddSmall(ln.n, 9) IN
  /\ ln.st # "error"
  /\ (ln.st = "fin" => Geq(ln.win, need) /\ ln.calls = 1)
  /\ (ln.st = "nedata" => Gt(ln.req, ln.win) /\ Leq(ln.req, need) /\ ln.calls = 0 /\ Strip(ln.read) = <<>>)
  /\ (Gt(need, ln.win) => ln.st = "nedata")
(* a definite string item claiming n bytes serialized into a buffer of buf bytes: written only if head + n fits, and then exactly that *)
SerDefOK(ln) == LET need == AddSmall(ln.n, 1 + ShortestArgw(ln.n)) IN
  /\ (Strip(ln.ret) # <<>> => Eq(ln.ret, need) /\ Geq(ln.buf, need))
  /\ (Strip(ln.size) = <<>> \/ Eq(ln.size, need)) /\ (Fits(need, 8) => Eq(ln.size, need))
  /\ (ln.acalled => Geq(ln.areq, need))                    \* serialize_alloc requests at least the size, or nothing
  /\ (Strip(ln.aret) # <<>> => ln.acalled /\ Eq(ln.aret, need))

LineOK(ln) == CASE ln.e = "mu" -> MuOK(ln) [] ln.e = "e2e" -> E2eOK(ln) [] ln.e = "grow" -> GrowOK(ln)
                [] ln.e = "claim" -> ClaimOK(ln) [] ln.e = "serdef" -> SerDefOK(ln) [] OTHER -> SerSizeOK(ln)
Init == l = 1
Next == l <= Len(TraceLog) /\ LineOK(TraceLog[l]) /\ l' = l + 1
Spec == Init /\ [][Next]_l
=============================================================================
