SPECIFICATION Spec
CONSTANT MaxLen = 3
INVARIANT Agree
INVARIANT PartitionExact
INVARIANT PartitionCovers
INVARIANT Additive
