----------------------------- MODULE CborScalars -----------------------------
(* The scalar items of libcbor as the public API presents them (ints.h,       *)
(* floats_ctrls.h): an item is created at a width with an unspecified          *)
(* payload (cbor_new_X), written with the setter of exactly that width         *)
(* (cbor_set_X), integers are re-labelled unsigned / negative without touching *)
(* the payload (cbor_mark_X), and read back through the width-specific and     *)
(* the width-agnostic getters. What a getter may be asked is part of the       *)
(* contract (a setter or getter of another width is a client error, ints.h /   *)
(* floats_ctrls.h: "the behaviour is undefined").                              *)
(* Beyond the twenty listed properties: this is the model of the state those   *)
(* properties' "every item tree obtainable from the construction API" draws    *)
(* its leaves from. Numbers are big-endian byte sequences (Bytes).             *)
EXTENDS Bytes, TLC

IntW == {1, 2, 4, 8}
FloatW == {2, 4, 8}

(* the abstract item: kind, width in bytes (0 for ctrl), payload bytes, and whether the payload has been written *)
VARIABLE it
NoItem == [k |-> "none", w |-> 0, v |-> <<>>, set |-> FALSE]

IsInt(x) == x.k \in {"uint", "negint"}

NewInt(w)    == it.k = "none" /\ w \in IntW /\ it' = [k |-> "uint", w |-> w, v |-> Zeros(w), set |-> FALSE]
(* cbor_set_uint<8w>: only on an integer of that width; the payload becomes v; the sign label is untouched *)
SetUint(w, v) == IsInt(it) /\ it.w = w /\ Len(v) = w /\ IsBytes(v) /\ it' = [it EXCEPT !.v = v, !.set = TRUE]
MarkNeg      == IsInt(it) /\ it' = [it EXCEPT !.k = "negint"]
MarkUint     == IsInt(it) /\ it' = [it EXCEPT !.k = "uint"]
NewFloat(w)  == it.k = "none" /\ w \in FloatW /\ it' = [k |-> "float", w |-> w, v |-> Zeros(IF w = 8 THEN 8 ELSE 4), set |-> FALSE]
(* cbor_set_float2/4 store a C float (4 bytes of bits), cbor_set_float8 a double (8 bytes) *)
SetFloat(w, v) == it.k = "float" /\ it.w = w /\ Len(v) = (IF w = 8 THEN 8 ELSE 4) /\ IsBytes(v) /\ it' = [it EXCEPT !.v = v, !.set = TRUE]
NewCtrl      == it.k = "none" /\ it' = [k |-> "ctrl", w |-> 0, v |-> <<0>>, set |-> FALSE]
SetCtrl(c)   == it.k = "ctrl" /\ c \in 0..255 /\ it' = [it EXCEPT !.v = <<c>>, !.set = TRUE]
(* cbor_set_bool: only on an item that already is a boolean *)
SetBool(b)   == it.k = "ctrl" /\ it.v[1] \in {20, 21} /\ it' = [it EXCEPT !.v = <<IF b THEN 21 ELSE 20>>]
Release      == it.k # "none" /\ it' = NoItem

(* ---- what the getters must answer (only meaningful once the payload was written) ---- *)
TypeOf(x)     == CASE x.k = "uint" -> 0 [] x.k = "negint" -> 1 [] OTHER -> 7
IntWidthCode(x) == CASE x.w = 1 -> 0 [] x.w = 2 -> 1 [] x.w = 4 -> 2 [] OTHER -> 3      \* CBOR_INT_8 .. CBOR_INT_64
FloatWidthCode(x) == CASE x.w = 0 -> 0 [] x.w = 2 -> 1 [] x.w = 4 -> 2 [] OTHER -> 3   \* CBOR_FLOAT_0 .. CBOR_FLOAT_64
GetInt(x)     == Pad(x.v, 8)                          \* cbor_get_int: the payload, zero-extended (the sign label is not applied)
IsBool(x)     == x.k = "ctrl" /\ x.v[1] \in {20, 21}
IsNull(x)     == x.k = "ctrl" /\ x.v[1] = 22
IsUndef(x)    == x.k = "ctrl" /\ x.v[1] = 23
GetBool(x)    == x.v[1] = 21

Init == it = NoItem
Next == \/ \E w \in IntW : NewInt(w) \/ \E v \in {Zeros(w), [i \in 1..w |-> 255], BE(24, w)} : SetUint(w, v)
        \/ MarkNeg \/ MarkUint
        \/ \E w \in FloatW : NewFloat(w) \/ \E v \in {Zeros(IF w = 8 THEN 8 ELSE 4), [i \in 1..(IF w = 8 THEN 8 ELSE 4) |-> 127]} : SetFloat(w, v)
        \/ NewCtrl \/ \E c \in {0, 19, 20, 21, 22, 23, 24, 32, 255} : SetCtrl(c) \/ \E b \in BOOLEAN : SetBool(b)
        \/ Release
Spec == Init /\ [][Next]_it

(* ---- invariants of the model itself ---- *)
TypeOK == /\ it.k \in {"none", "uint", "negint", "float", "ctrl"}
          /\ (IsInt(it) => it.w \in IntW /\ Len(it.v) = it.w)
          /\ (it.k = "float" => it.w \in FloatW /\ Len(it.v) = (IF it.w = 8 THEN 8 ELSE 4))
          /\ (it.k = "ctrl" => it.w = 0 /\ Len(it.v) = 1)
(* re-labelling never changes what the getters return *)
MarkKeepsPayload == [][(IsInt(it) /\ IsInt(it') /\ it'.k # it.k) => (it'.v = it.v /\ it'.w = it.w)]_it
(* the width of an item never changes after creation *)
WidthFixed == [][(it.k # "none" /\ it'.k # "none") => it'.w = it.w]_it
(* exactly one of bool / null / undef / other for a ctrl *)
CtrlPartition == it.k = "ctrl" => (IF IsBool(it) THEN 1 ELSE 0) + (IF IsNull(it) THEN 1 ELSE 0) + (IF IsUndef(it) THEN 1 ELSE 0) <= 1
=============================================================================
