SPECIFICATION Spec
CONSTANT Wide = FALSE
INVARIANT RoundTrip
INVARIANT Stable
INVARIANT InDom
INVARIANT SizeContract
INVARIANT PrefixSoft
