SPECIFICATION Spec
CONSTANTS
  Threads <- T2
  Progs <- BlipProgs
INVARIANT NoRace
