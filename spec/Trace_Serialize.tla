--------------------------- MODULE Trace_Serialize ---------------------------
(* B-direction conformance for C03 (serialization = RFC encoding, round trip),  *)
(* C07 (size / serialize / serialize_alloc agree, fixed-buffer contract) and    *)
(* C11 (cbor_copy). A "ser" line opens a case and fixes the current tree; the   *)
(* "sern" and "copy" lines that follow refer to it. VERIF_JUDGE selects which   *)
(* property's clauses are judged, so a check never demands more than its own    *)
(* property states.                                                             *)
EXTENDS CborEncode, CborLoadRef, Json, IOUtils, TLC

TraceLog == ndJsonDeserialize(IOEnv.TRACE)
Judge == IOEnv.VERIF_JUDGE
J(p) == Judge = p

VARIABLES l, cur         \* cur: the "ser" line of the current case (or <<>>)

Ln == TraceLog[l]

(* ---- C03 ---- *)
SerJudgeC03(ln, x, enc) ==
  /\ InDomain(x)                                        \* generator stays inside the property's domain
  /\ ln.bytes = enc                                     \* exactly the RFC 8949 encoding the tree determines
  /\ ln.size = Len(enc)
  /\ ln.reload_ok /\ ln.reload_read = Len(enc)          \* loading consumes all of it ...
  /\ TreeEqJ(ln.reload, x)                              \* ... and yields an equal tree (NaN = NaN)
  /\ ln.rebytes = ln.bytes                              \* serializing again is the identity
SerJudge2(ln, x) == SerJudgeC03(ln, x, Encode(x))

(* ---- C07 ---- *)
SerJudgeC07(ln) ==
  /\ ln.size > 0
  /\ ln.alloc_ret = ln.size /\ ln.alloc_size = ln.size /\ ln.alloc_block = ln.size   \* a buffer of exactly that size
  /\ Len(ln.bytes) = ln.size
SernJudge(ln, c) ==
  /\ ln.ret = (IF ln.n >= c.size THEN c.size ELSE 0)    \* the fixed-buffer contract
  /\ ln.ret2 = ln.ret
  /\ ~ln.over                                           \* nothing written outside the first n bytes
  /\ ln.outsame
  /\ (ln.ret > 0 /\ c.size <= 48) => ln.out = c.bytes   \* exactly those bytes

(* ---- C11 ---- *)
Shape(j) == [i \in 1..Len(j) |-> [t |-> j[i].t, w |-> j[i].w, def |-> j[i].def, nc |-> j[i].nc]]
WithRc(j) == [i \in 1..Len(j) |-> [n |-> NodeOfJson(j[i]), rc |-> j[i].rc]]
CopyJudge(ln, c) ==
  /\ ln.ok
  /\ CanonFlat(FlatOfJson(ln.tree)) = CanonFlat(FlatOfJson(c.tree))     \* same shape and content (widths, flavour, chunking, order)
  /\ AllRcOne(ln.tree)                                  \* reference count one on every node
  /\ ln.shared = 0                                      \* no node and no buffer in common
  /\ ln.bytes = c.bytes                                 \* serializes to the same bytes
  /\ WithRc(ln.src_after) = WithRc(c.tree)              \* source contents and refcounts unchanged
  /\ ln.src_bytes_after = c.bytes                       \* modifying and releasing the copy leaves the source alone
  /\ WithRc(ln.src_final) = WithRc(c.tree)
  /\ ln.cp3_bytes = c.bytes /\ AllRcOne(ln.cp3)         \* a copy survives the release of what it was copied from
  /\ WithRc(ln.src_after_fault) = WithRc(c.tree)       \* a copy that ran into a refused allocation leaves the source alone too
  /\ (ln.fault_hit => ln.fault_copy_null)

Init == l = 1 /\ cur = <<>>
Ser == /\ l <= Len(TraceLog) /\ Ln.e = "ser"
       /\ (J("C03") => SerJudge2(Ln, TreeOfJson(Ln.tree)))
       /\ (J("C07") => SerJudgeC07(Ln))
       /\ cur' = <<[size |-> Ln.size, bytes |-> Ln.bytes, tree |-> Ln.tree]>> /\ l' = l + 1
Sern == /\ l <= Len(TraceLog) /\ Ln.e = "sern" /\ cur # <<>>
        /\ (J("C07") => SernJudge(Ln, cur[1]))
        /\ UNCHANGED cur /\ l' = l + 1
Copy == /\ l <= Len(TraceLog) /\ Ln.e = "copy" /\ cur # <<>>
        /\ (J("C11") => CopyJudge(Ln, cur[1]))
        /\ UNCHANGED cur /\ l' = l + 1
(* an array (definite, indefinite, or tagged) whose `count` members are all the same `len`-byte string: the size is the exact total *)
(* although it exceeds 2^32, serialize_alloc asks for exactly that much (or nothing), a small buffer is refused                  *)
HeadLen(a) == 1 + ShortestArgw(a)
BigTotal(ln) == LET member == AddSmall(ln.len, HeadLen(ln.len))
                    head == IF ln.kind = 1 THEN 0 ELSE HeadLen(ln.count) IN
                AddSmall(Mul(ln.count, member), head + ln.wrap)
BigSer == /\ l <= Len(TraceLog) /\ Ln.e = "bigser"
          /\ (J("C07") => /\ Eq(Ln.size, BigTotal(Ln))
                           /\ (Ln.acalled => Eq(Ln.areq, Ln.size))
                           /\ (Strip(Ln.aret) = <<>> \/ Eq(Ln.aret, Ln.size))
                           /\ Ln.small = 0)
          /\ UNCHANGED cur /\ l' = l + 1
(* a "leak" line is never accepted: releasing the tree must release everything *)
Next == Ser \/ Sern \/ Copy \/ BigSer
Spec == Init /\ [][Next]_<<l, cur>>
=============================================================================
