---------------------------- MODULE Trace_Scalars ----------------------------
(* Conformance for CborScalars: recorded histories of cbor_new_X / cbor_set_X /  *)
(* cbor_mark_X on one item at a time (harness/h_scalars.c) are replayed through  *)
(* the model's actions; after every call each public predicate and getter must   *)
(* answer what the model state determines, and the item's serialization must be  *)
(* the RFC 8949 encoding of that state (CborEncode).                             *)
EXTENDS CborScalars, CborEncode, Json, IOUtils

TraceLog == ndJsonDeserialize(IOEnv.TRACE)
Judge == IOEnv.VERIF_JUDGE      \* "C03": only the serialization clauses (what C03 states); "all": every getter and predicate as well
VARIABLE l
Ln == TraceLog[l]

(* the leaf of CborTree that the model state denotes *)
LeafOf(x) == IF IsInt(x) THEN Mk(x.k, x.w, TRUE, x.v, <<>>)
             ELSE IF x.k = "float" THEN Mk("float", x.w, TRUE, x.v, <<>>)
             ELSE Mk("ctrl", 0, TRUE, x.v, <<>>)

Getters(ln, x) ==
  /\ ln.type = TypeOf(x)
  /\ ln.isa_uint = (x.k = "uint") /\ ln.isa_negint = (x.k = "negint") /\ ln.isa_fc = (x.k \in {"float", "ctrl"})
  /\ ln.is_int = IsInt(x) /\ ln.is_float = (x.k = "float") /\ ln.is_ctrl = (x.k = "ctrl")
  /\ ln.is_bool = IsBool(x) /\ ln.is_null = IsNull(x) /\ ln.is_undef = IsUndef(x)
  /\ ln.wcode = (IF IsInt(x) THEN IntWidthCode(x) ELSE FloatWidthCode(x))
  /\ ln.val = x.v                                            \* the getter of the item's own width returns the payload
  /\ (IsInt(x) => ln.getint = GetInt(x))                     \* cbor_get_int: zero-extended payload
  /\ (x.k = "ctrl" => ln.ctrl = x.v[1] /\ (IsBool(x) => ln.getbool = GetBool(x)))
  /\ ln.rc = 1

Observed(ln, x) ==
  /\ (x.k = "float" /\ x.w = 2 /\ ~SingleIsNaN(x.v) => HalfRepresentable(x.v))   \* (the driver keeps half items inside the encoder's domain)
  /\ ln.ser = Encode(LeafOf(x)) /\ ln.size = Len(ln.ser)      \* serialization = the encoding of exactly this state
  /\ (Judge = "C03" \/ Getters(ln, x))
Step(ln) ==
  CASE ln.op = "NewInt" -> NewInt(ln.w)
    [] ln.op = "NewFloat" -> NewFloat(ln.w)
    [] ln.op = "NewCtrl" -> NewCtrl
    [] ln.op = "SetUint" -> SetUint(ln.w, ln.v) /\ Observed(ln, it')
    [] ln.op = "MarkNeg" -> MarkNeg /\ Observed(ln, it')
    [] ln.op = "MarkUint" -> MarkUint /\ Observed(ln, it')
    [] ln.op = "SetFloat" -> SetFloat(ln.w, ln.v) /\ Observed(ln, it')
    [] ln.op = "SetCtrl" -> SetCtrl(ln.v[1]) /\ Observed(ln, it')
    [] ln.op = "SetBool" -> SetBool(ln.v[1] = 1) /\ Observed(ln, it')
    [] OTHER -> Release /\ ln.live = 0

TInit == Init /\ l = 1
TNext == l <= Len(TraceLog) /\ Step(Ln) /\ l' = l + 1
TSpec == TInit /\ [][TNext]_<<it, l>>
=============================================================================
