SPECIFICATION TSpec
CONSTANT L <- TraceL
