----------------------------- MODULE CborEncode -----------------------------
(* RFC 8949 encoding, as the REQUIREMENT for the low-level encoders          *)
(* (encoding.c, encoders.c: one operator per public cbor_encode_X) and for    *)
(* cbor_serialize / cbor_serialized_size / the fixed-buffer contract         *)
(* (serialization.c). Transcribed from RFC 8949 section 3 and Appendix A/B,  *)
(* not from the C code.                                                      *)
EXTENDS CborTree

(* head with an explicit argument width w in {0,1,2,4,8}; a = argument bytes (value must fit) *)
HeadW(mt, w, a) == IF w = 0 THEN <<mt * 32 + Val(Pad(a, 1))>>
                   ELSE <<mt * 32 + (CASE w = 1 -> 24 [] w = 2 -> 25 [] w = 4 -> 26 [] OTHER -> 27)>> \o Pad(a, w)
(* shortest head *)
HeadS(mt, a) == HeadW(mt, ShortestArgw(a), a)

(* ---- the public low-level encoders: bytes they must produce for a value given as bytes ---- *)
(* 8-bit variants: immediate up to 23, one-byte argument above *)
Enc8(mt, a)  == IF Val(Pad(a, 1)) <= 23 THEN HeadW(mt, 0, a) ELSE HeadW(mt, 1, a)
Enc16(mt, a) == HeadW(mt, 2, a)
Enc32(mt, a) == HeadW(mt, 4, a)
Enc64(mt, a) == HeadW(mt, 8, a)

EncoderMT(f) == CASE f \in {"uint8", "uint16", "uint32", "uint64", "uint"} -> 0
                  [] f \in {"negint8", "negint16", "negint32", "negint64", "negint"} -> 1
                  [] f = "bytestring_start" -> 2 [] f = "string_start" -> 3
                  [] f = "array_start" -> 4 [] f = "map_start" -> 5 [] f = "tag" -> 6 [] OTHER -> 7

(* what cbor_encode_<f>(value) must write; a = value bytes (ints), float bits, or <<b>> for bool *)
EncoderBytes(f, a) ==
  CASE f \in {"uint8", "negint8"} -> Enc8(EncoderMT(f), a)
    [] f \in {"uint16", "negint16"} -> Enc16(EncoderMT(f), a)
    [] f \in {"uint32", "negint32"} -> Enc32(EncoderMT(f), a)
    [] f \in {"uint64", "negint64"} -> Enc64(EncoderMT(f), a)
    [] f \in {"uint", "negint", "bytestring_start", "string_start", "array_start", "map_start", "tag"} -> HeadS(EncoderMT(f), a)
    [] f = "indef_bytestring_start" -> <<95>> [] f = "indef_string_start" -> <<127>>
    [] f = "indef_array_start" -> <<159>> [] f = "indef_map_start" -> <<191>>
    [] f = "bool" -> IF Strip(a) = <<>> THEN <<244>> ELSE <<245>>
    [] f = "null" -> <<246>> [] f = "undef" -> <<247>> [] f = "break" -> <<255>>
    [] f = "ctrl" -> Enc8(7, a)                                   \* simple value: immediate / 0xf8 xx
    [] f = "half" -> <<249>> \o EncodeHalfReq(a)                  \* a = bits of the C float handed in
    [] f = "single" -> <<250>> \o EncodeSingleReq(a)
    [] f = "double" -> <<251>> \o EncodeDoubleReq(a)

(* ---- serialization of a tree ---- *)
RECURSIVE Encode(_)
RECURSIVE EncodeAll(_, _)
EncodeAll(items, i) == IF i > Len(items) THEN <<>> ELSE Encode(items[i]) \o EncodeAll(items, i + 1)
Encode(x) ==
  CASE x.t = "uint"   -> IF x.w = 1 THEN Enc8(0, x.v) ELSE HeadW(0, x.w, x.v)      \* at the stored width
    [] x.t = "negint" -> IF x.w = 1 THEN Enc8(1, x.v) ELSE HeadW(1, x.w, x.v)
    [] x.t \in {"bstr", "tstr"} ->
         LET mt == IF x.t = "bstr" THEN 2 ELSE 3 IN
         IF x.def THEN HeadS(mt, BE(Len(x.v), 4)) \o x.v
         ELSE <<mt * 32 + 31>> \o EncodeAll(x.items, 1) \o <<255>>
    [] x.t = "arr" -> IF x.def THEN HeadS(4, BE(Len(x.items), 4)) \o EncodeAll(x.items, 1)
                      ELSE <<159>> \o EncodeAll(x.items, 1) \o <<255>>
    [] x.t = "map" -> IF x.def THEN HeadS(5, BE(Len(x.items) \div 2, 4)) \o EncodeAll(x.items, 1)
                      ELSE <<191>> \o EncodeAll(x.items, 1) \o <<255>>
    [] x.t = "tag" -> HeadS(6, x.v) \o EncodeAll(x.items, 1)
    [] x.t = "float" -> CASE x.w = 2 -> <<249>> \o EncodeHalfReq(x.v)
                          [] x.w = 4 -> <<250>> \o EncodeSingleReq(x.v)
                          [] OTHER   -> <<251>> \o EncodeDoubleReq(x.v)
    [] OTHER -> Enc8(7, x.v)                                                        \* ctrl

SerializedSize(x) == Len(Encode(x))

(* the fixed-buffer contract of cbor_serialize (C07) *)
SerializeRet(x, n) == IF n >= SerializedSize(x) THEN SerializedSize(x) ELSE 0

(* trees in the domain of C03: assigned simple values only, half items hold half-representable values *)
RECURSIVE InDomain(_)
InDomain(x) == /\ (x.t = "ctrl" => x.v[1] \in 20..23)
               /\ (x.t = "float" /\ x.w = 2 => (SingleIsNaN(x.v) \/ HalfRepresentable(x.v)))
               /\ \A i \in 1..Len(x.items) : InDomain(x.items[i])
=============================================================================
