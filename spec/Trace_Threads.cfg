SPECIFICATION Spec
