----------------------------- MODULE MC_Decoder -----------------------------
(* Bounded instance of CborDecoder: the environment feeds head tokens one at  *)
(* a time (so common prefixes are shared), may end the input anywhere, and    *)
(* may refuse up to MaxRefusals allocations. Scalar values and string         *)
(* contents cannot influence the machine (it never reads them), so one        *)
(* representative per kind is used; Trace_Decoder restores the real ones.     *)
EXTENDS CborDecoder, TLC

CONSTANTS MaxLen, MaxRefusals

VARIABLE evs            \* history: the heads consumed so far (for the grammar)
mvars == <<dvars, evs>>

NoLeaf == Mk("none", 0, TRUE, <<>>, <<>>)
Ev(st, k, cnt, n, leaf) == [st |-> st, k |-> k, cnt |-> cnt, n |-> n, v |-> <<6>>, leaf |-> leaf]
Tokens == {
  Ev("fin", "uint", 0, 1, Mk("uint", 1, TRUE, <<7>>, <<>>)),          \* S
  Ev("fin", "bstr", 0, 1, Mk("bstr", 0, TRUE, <<1>>, <<>>)),          \* B
  Ev("fin", "tstr", 0, 1, Mk("tstr", 0, TRUE, <<97>>, <<>>)),         \* T
  Ev("fin", "bstart", 0, 1, NoLeaf), Ev("fin", "tstart", 0, 1, NoLeaf),
  Ev("fin", "arr", 0, 1, NoLeaf), Ev("fin", "arr", 1, 1, NoLeaf), Ev("fin", "arr", 2, 1, NoLeaf),
  Ev("fin", "iarr", 0, 1, NoLeaf),
  Ev("fin", "map", 0, 1, NoLeaf), Ev("fin", "map", 1, 1, NoLeaf), Ev("fin", "imap", 0, 1, NoLeaf),
  Ev("fin", "tag", 0, 1, NoLeaf),
  Ev("fin", "break", 0, 1, NoLeaf),
  Ev("error", "rsv", 0, 0, NoLeaf),                                   \* RSV
  Ev("nedata", "cut", 0, 0, NoLeaf) }                                 \* CUT: input ends inside this head

Init == Idle /\ len \in 0..MaxLen /\ evs = <<>>

Next == \/ (NoData \/ Start \/ Leave \/ Unwind) /\ UNCHANGED evs
        \/ \E t \in Tokens : OnHead(t, FALSE) /\ evs' = Append(evs, t)
        \/ \E t \in Tokens : t.st = "fin" /\ refusals < MaxRefusals /\ OnHead(t, TRUE) /\ evs' = Append(evs, t)

AgreesInv == Agrees(evs)

Spec == Init /\ [][Next]_mvars
FairSpec == Spec /\ WF_mvars(Next)

Terminates == <>(status = "returned")

(* vacuity guards, checked by reading the result of a separate run: each of these must be VIOLATED *)
NeverLazy == ~(status = "returned" /\ refusals = 0 /\ len > 0 /\ Cardinality(Admissible(evs, L, pos >= len)) = 2)
NeverDeep == Len(stack) < L
NeverOk == ~(status = "returned" /\ result.ok /\ Depth(result.tree[1]) = L)
=============================================================================
