---------------------------- MODULE MC_AllocFault ----------------------------
(* every operation length 1..MaxReq x every request index x {none, only k, from k}, operations chained *)
EXTENDS CborAlloc, TLC
Faults == {[mode |-> "none", k |-> 0]} \cup {[mode |-> m, k |-> k] : m \in {"only", "from"}, k \in 0..(MaxReq - 1)}
Init == heap = {} /\ phase = "idle" /\ mine = {} /\ temp = {} /\ snap = {} /\ reqs = 0 /\ need = 1 /\ fault = [mode |-> "none", k |-> 0] /\ outcome = "none"
Next == \/ \E n \in 1..MaxReq, f \in Faults : Begin(n, f)
        \/ \E t \in BOOLEAN : Request(t)
        \/ Regrow \/ Unwind \/ Fail \/ DropTemp \/ Succeed
Spec == Init /\ [][Next]_avars
FairSpec == Spec /\ WF_avars(Unwind \/ Fail \/ DropTemp \/ Succeed \/ Regrow \/ (\E t \in BOOLEAN : Request(t)))
Bound == Cardinality(heap) <= MaxBlocks - 1
EveryOpEnds == (phase \in {"run", "unwind"}) ~> (phase = "done")
=============================================================================
