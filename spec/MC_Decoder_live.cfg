SPECIFICATION FairSpec
CONSTANTS
  L = 2
  MaxLen = 4
  MaxRefusals = 1
PROPERTY Terminates
