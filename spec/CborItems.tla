------------------------------ MODULE CborItems ------------------------------
(* The item heap of libcbor as a reference-counted object graph mutated by the *)
(* public API (common.c:80-163, arrays.c, maps.c, strings.c, bytestrings.c,    *)
(* tags.c, cbor.c:cbor_copy), together with the ghost the ownership property    *)
(* (C04) talks about: how many references the documented rules say the CLIENT   *)
(* holds to each item. Containers carry capacity and growth (C12).              *)
(*                                                                              *)
(* One action per public call. Preconditions encode the documented rules: the   *)
(* caller holds a reference to every argument, containers stay acyclic.         *)
EXTENDS Naturals, Sequences, FiniteSets

CONSTANT NoId            \* "NULL"; item identities (addresses) are DOMAIN item

VARIABLES live,          \* ids of allocated items
          item,          \* id -> [t, sub, def, cap, kids, rc]
          client,        \* id -> number of references the rules say the client holds
          bad,           \* ghost: a released item was touched / released twice
          grows,         \* id -> number of reallocations this container has cost so far
          ret            \* result of the last call: 1 / 0 for true / false, an id, or NoId

ivars == <<live, item, client, bad, grows, ret>>

(* t: "leaf" | "arr" | "map" | "tag" | "chunked"; sub: "int" | "bstr" | "tstr" | ... (what kind of leaf / string) *)
Node(t, sub, def, cap) == [t |-> t, sub |-> sub, def |-> def, cap |-> cap, kids |-> <<>>, rc |-> 1]
Dead == [t |-> "dead", sub |-> "", def |-> TRUE, cap |-> 0, kids |-> <<>>, rc |-> 0]

Size(i) == Len(item[i].kids)
CountIn(s, x) == Cardinality({k \in 1..Len(s) : s[k] = x})
InEdges(x) == LET S == {j \in live : CountIn(item[j].kids, x) > 0} IN
              LET RECURSIVE Sum(_)
                  Sum(T) == IF T = {} THEN 0 ELSE LET j == CHOOSE j \in T : TRUE IN CountIn(item[j].kids, x) + Sum(T \ {j})
              IN Sum(S)

RECURSIVE ReachFrom(_, _)
ReachFrom(frontier, seen) ==
  IF frontier = {} THEN seen
  ELSE LET nxt == UNION {{item[i].kids[k] : k \in 1..Len(item[i].kids)} : i \in frontier} \ (seen \cup frontier) IN
       ReachFrom(nxt, seen \cup frontier)
Reach(x) == ReachFrom({x}, {})

St == [item |-> item, live |-> live, bad |-> bad]

(* cbor_decref on the heap st: drop one reference; at zero release the item and everything only it kept alive *)
RECURSIVE DecrefIn(_, _), ReleaseKids(_, _, _)
DecrefIn(st, i) ==
  IF i \notin st.live THEN [st EXCEPT !.bad = TRUE]                   \* touched after release
  ELSE IF st.item[i].rc > 1 THEN [st EXCEPT !.item[i].rc = @ - 1]
  ELSE ReleaseKids([st EXCEPT !.live = @ \ {i}, !.item[i] = Dead], st.item[i].kids, 1)
ReleaseKids(st, kids, k) == IF k > Len(kids) THEN st ELSE ReleaseKids(DecrefIn(st, kids[k]), kids, k + 1)

Install(st) == /\ item' = st.item /\ live' = st.live /\ bad' = st.bad

Holds(x) == x \in live /\ client[x] > 0            \* the caller owns a reference to x

(* ------------------------------------------------------------------ creation *)
New(i, n) == /\ i \in DOMAIN item \ live /\ item[i].t = "dead"
             /\ item' = [item EXCEPT ![i] = n]
             /\ live' = live \cup {i}
             /\ client' = [client EXCEPT ![i] = 1]
             /\ grows' = [grows EXCEPT ![i] = 0]
             /\ ret' = i /\ UNCHANGED bad

(* ------------------------------------------------------------------ arrays *)
(* cbor_array_push; newcap: the capacity after the call when the indefinite array had to grow *)
PushCore(a, x, newcap, giveaway) ==
  /\ Holds(a) /\ Holds(x) /\ item[a].t = "arr" /\ a \notin Reach(x)
  /\ IF item[a].def /\ Size(a) >= item[a].cap
       THEN /\ ~giveaway                                               \* (cbor_move into a full array is a client error)
            /\ ret' = 0 /\ UNCHANGED <<live, item, client, bad, grows>>     \* definite: refuse, change nothing
       ELSE /\ ret' = 1
            /\ LET growing == Size(a) >= item[a].cap IN
               /\ (growing => newcap > item[a].cap) /\ (~growing => newcap = item[a].cap)
               /\ item' = [item EXCEPT ![a].kids = Append(@, x), ![a].cap = newcap,
                                       ![x].rc = IF giveaway THEN @ ELSE @ + 1]
               /\ grows' = [grows EXCEPT ![a] = IF growing THEN @ + 1 ELSE @]
            /\ client' = IF giveaway THEN [client EXCEPT ![x] = @ - 1] ELSE client   \* cbor_move: the client's reference goes to the array
            /\ UNCHANGED <<live, bad>>
Push(a, x, newcap) == PushCore(a, x, newcap, FALSE)
MovePush(a, x, newcap) == PushCore(a, x, newcap, TRUE)

(* cbor_array_replace *)
Replace(a, idx, x) ==
  /\ Holds(a) /\ Holds(x) /\ item[a].t = "arr" /\ a \notin Reach(x)
  /\ IF idx >= Size(a)
       THEN ret' = 0 /\ UNCHANGED <<live, item, client, bad, grows>>          \* out of range: refused, nothing touched
       ELSE /\ ret' = 1
            /\ LET st1 == DecrefIn(St, item[a].kids[idx + 1])                      \* the array's reference to the old member goes away
                   st2 == [st1 EXCEPT !.item[a].kids[idx + 1] = x, !.item[x].rc = @ + 1] IN Install(st2)
            /\ UNCHANGED <<client, grows>>
(* cbor_array_set: push at size, replace below, refuse above *)
Set(a, idx, x, newcap) == IF Holds(a) /\ item[a].t = "arr" /\ idx = Size(a) THEN Push(a, x, newcap)
                          ELSE Replace(a, idx, x)
(* cbor_array_get: hands out a new reference, or NULL when out of range *)
Get(a, idx) ==
  /\ Holds(a) /\ item[a].t = "arr"
  /\ IF idx >= Size(a) THEN ret' = NoId /\ UNCHANGED <<live, item, client, bad, grows>>
     ELSE LET k == item[a].kids[idx + 1] IN
          /\ ret' = k /\ item' = [item EXCEPT ![k].rc = @ + 1] /\ client' = [client EXCEPT ![k] = @ + 1]
          /\ UNCHANGED <<live, bad, grows>>

(* ------------------------------------------------------------------ maps *)
MapAdd(m, k, v, newcap) ==
  /\ Holds(m) /\ Holds(k) /\ Holds(v) /\ item[m].t = "map" /\ m \notin Reach(k) /\ m \notin Reach(v)
  /\ IF item[m].def /\ Size(m) >= 2 * item[m].cap
       THEN ret' = 0 /\ UNCHANGED <<live, item, client, bad, grows>>
       ELSE /\ ret' = 1
            /\ LET growing == Size(m) >= 2 * item[m].cap IN
               /\ (growing => newcap > item[m].cap) /\ (~growing => newcap = item[m].cap)
               /\ item' = IF k = v THEN [item EXCEPT ![m].kids = @ \o <<k, v>>, ![m].cap = newcap, ![k].rc = @ + 2]
                          ELSE [item EXCEPT ![m].kids = @ \o <<k, v>>, ![m].cap = newcap, ![k].rc = @ + 1, ![v].rc = @ + 1]
               /\ grows' = [grows EXCEPT ![m] = IF growing THEN @ + 1 ELSE @]
            /\ UNCHANGED <<live, client, bad>>

(* ------------------------------------------------------------------ chunked strings *)
AddChunk(s, c, newcap) ==
  /\ Holds(s) /\ Holds(c) /\ item[s].t = "chunked" /\ item[c].t = "leaf" /\ item[c].sub = item[s].sub
  /\ ret' = 1
  /\ LET growing == Size(s) >= item[s].cap IN
     /\ (growing => newcap > item[s].cap) /\ (~growing => newcap = item[s].cap)
     /\ item' = [item EXCEPT ![s].kids = Append(@, c), ![s].cap = newcap, ![c].rc = @ + 1]
     /\ grows' = [grows EXCEPT ![s] = IF growing THEN @ + 1 ELSE @]
  /\ UNCHANGED <<live, client, bad>>

(* ------------------------------------------------------------------ tags *)
(* cbor_tag_set_item: the previous item, if any, is dropped from the tag WITHOUT a reference count change     *)
(* (tags.h): that reference now belongs to the client                                                         *)
TagSet(t, x) ==
  /\ Holds(t) /\ Holds(x) /\ item[t].t = "tag" /\ t \notin Reach(x)
  /\ item' = [item EXCEPT ![t].kids = <<x>>, ![x].rc = @ + 1]
  /\ client' = IF item[t].kids = <<>> THEN client ELSE [client EXCEPT ![item[t].kids[1]] = @ + 1]
  /\ ret' = 1 /\ UNCHANGED <<live, bad, grows>>
TagGet(t) ==
  /\ Holds(t) /\ item[t].t = "tag" /\ item[t].kids # <<>>
  /\ LET k == item[t].kids[1] IN
     /\ ret' = k /\ item' = [item EXCEPT ![k].rc = @ + 1] /\ client' = [client EXCEPT ![k] = @ + 1]
  /\ UNCHANGED <<live, bad, grows>>
BuildTag(i, x) ==
  /\ Holds(x) /\ i \in DOMAIN item \ live /\ item[i].t = "dead"
  /\ item' = [item EXCEPT ![i] = [Node("tag", "", TRUE, 0) EXCEPT !.kids = <<x>>], ![x].rc = @ + 1]
  /\ live' = live \cup {i} /\ client' = [client EXCEPT ![i] = 1] /\ grows' = [grows EXCEPT ![i] = 0]
  /\ ret' = i /\ UNCHANGED bad

(* ------------------------------------------------------------------ references *)
Incref(x) == /\ Holds(x)
             /\ item' = [item EXCEPT ![x].rc = @ + 1] /\ client' = [client EXCEPT ![x] = @ + 1]
             /\ ret' = x /\ UNCHANGED <<live, bad, grows>>
(* cbor_decref / cbor_intermediate_decref by the client *)
Decref(x) == /\ Holds(x)
             /\ client' = [client EXCEPT ![x] = @ - 1]
             /\ Install(DecrefIn(St, x))
             /\ ret' = (IF item[x].rc = 1 THEN NoId ELSE x)                  \* the pointer is nulled when the item went away
             /\ UNCHANGED grows

(* ------------------------------------------------------------------ copy *)
(* deep copy: a fresh node for every OCCURRENCE reachable from x (shared sub-items come out unshared), rc 1 *)
(* caps: capacity the copy's containers were given (id -> cap; representation, read from the log in conformance); *)
(* where it says nothing the copy is exactly as large as its contents                                             *)
RECURSIVE CopyR(_, _, _, _), CopyKids(_, _, _, _, _, _)
CopyR(it, free, x, caps) ==      \* returns [item, free, root] ; free: sequence of unused ids
  LET r == Head(free)
      kc == CopyKids(it, Tail(free), it[x].kids, 1, <<>>, caps) IN
  [item |-> [kc.item EXCEPT ![r] = [it[x] EXCEPT !.kids = kc.kids, !.rc = 1, !.cap = IF r \in DOMAIN caps THEN caps[r]
                                                                      ELSE IF it[x].t = "map" THEN Len(it[x].kids) \div 2 ELSE Len(it[x].kids)]],
   free |-> kc.free, root |-> r]
CopyKids(it, free, kids, k, acc, caps) ==
  IF k > Len(kids) THEN [item |-> it, free |-> free, kids |-> acc]
  ELSE LET c == CopyR(it, free, kids[k], caps) IN
       CopyKids([c.item EXCEPT ![c.root].rc = 1], c.free, kids, k + 1, Append(acc, c.root), caps)
RECURSIVE Occurrences(_)
RECURSIVE OccKids(_, _)
OccKids(kids, k) == IF k > Len(kids) THEN 0 ELSE Occurrences(kids[k]) + OccKids(kids, k + 1)
Occurrences(x) == 1 + OccKids(item[x].kids, 1)
Copy(x, freeSeq, caps) ==
  /\ Holds(x) /\ Len(freeSeq) >= Occurrences(x)
  /\ \A k \in 1..Len(freeSeq) : freeSeq[k] \in DOMAIN item \ live /\ item[freeSeq[k]].t = "dead"
  /\ LET c == CopyR(item, freeSeq, x, caps)
         used == {freeSeq[k] : k \in 1..(Len(freeSeq) - Len(c.free))} IN
     /\ item' = c.item /\ live' = live \cup used
     /\ client' = [client EXCEPT ![c.root] = 1]
     /\ grows' = [i \in DOMAIN grows |-> IF i \in used THEN 0 ELSE grows[i]]
     /\ ret' = c.root
  /\ UNCHANGED bad

(* ------------------------------------------------------------------ properties *)
(* C04: the observable count equals the references the rules say exist *)
RcExact == \A i \in live : item[i].rc = client[i] + InEdges(i)
ClientRefsLive == \A i \in DOMAIN client : client[i] > 0 => i \in live
EdgesLive == \A i \in live : \A k \in 1..Len(item[i].kids) : item[i].kids[k] \in live
FreedOnce == ~bad
NoLeak == (\A i \in DOMAIN client : client[i] = 0) => live = {}
(* C12 *)
SizeWithinCap == \A i \in live : (item[i].t \in {"arr", "chunked"} => Size(i) <= item[i].cap)
                               /\ (item[i].t = "map" => Size(i) <= 2 * item[i].cap)
Acyclic == \A i \in live : \A k \in 1..Len(item[i].kids) : i \notin Reach(item[i].kids[k])
=============================================================================
