----------------------------- MODULE Trace_Items -----------------------------
(* B-direction conformance for C04 (ownership) and C12 (containers): recorded  *)
(* API histories (harness/h_items.c) are replayed through the actions of        *)
(* CborItems; after every call the complete observable state of everything the  *)
(* client can reach -- reference counts, contents, capacities -- must equal the *)
(* specification's state, the call's result must be the specified one, and all  *)
(* invariants of CborItems are evaluated. Preconditions (ownership rules) are   *)
(* re-checked by the actions themselves: a driver mistake makes the action      *)
(* disabled, i.e. an illegal trace, not a false verdict about libcbor.          *)
EXTENDS CborItems, Json, IOUtils, TLC, Integers

TraceLog == ndJsonDeserialize(IOEnv.TRACE)
Judge == IOEnv.VERIF_JUDGE        \* "C04": ownership clauses; "C12": container clauses
VARIABLES l,
          cost          \* id -> reallocations the allocator saw while this container was being inserted into (C12)
tvars == <<ivars, l, cost>>

Range(s) == {s[k] : k \in 1..Len(s)}
AllIds == UNION {{n.id : n \in Range(TraceLog[k].state)} : k \in {k \in 1..Len(TraceLog) : TraceLog[k].e = "op"}}

RECURSIVE Log2Ceil(_)
Log2Ceil(n) == IF n <= 1 THEN 0 ELSE 1 + Log2Ceil((n + 1) \div 2)

Ln == TraceLog[l]
IsOp(name) == l <= Len(TraceLog) /\ TraceLog[l].e = "op" /\ TraceLog[l].name = name /\ l' = l + 1

Blank == /\ live = {} /\ item = [i \in AllIds |-> Dead] /\ client = [i \in AllIds |-> 0]
         /\ bad = FALSE /\ grows = [i \in AllIds |-> 0] /\ ret = 0
TInit == Blank /\ l = 1 /\ cost = [i \in AllIds |-> 0]

NodeOf(id) == CHOOSE n \in Range(Ln.state) : n.id = id
CapOf(id) == IF \E n \in Range(Ln.state) : n.id = id THEN NodeOf(id).cap ELSE 0
(* logged observable state = specification state (for everything reachable from client references) *)
StateMatches(ln) ==
  /\ (Judge = "C04" => {n.id : n \in Range(ln.state)} = live')        \* exactly the items the rules keep alive exist
  /\ \A n \in Range(ln.state) : (Judge = "C04" \/ n.id \in live') =>
        /\ (Judge = "C04" => item'[n.id].rc = n.rc) /\ item'[n.id].kids = n.kids
        /\ item'[n.id].t = n.t /\ item'[n.id].def = n.def /\ item'[n.id].sub = n.sub
  /\ (Judge = "C04" => /\ \A p \in Range(ln.client) : client'[p[1]] = p[2]
                       /\ \A i \in live' : client'[i] > 0 => \E p \in Range(ln.client) : p[1] = i)
  /\ (Judge = "C04" \/ ln.name \notin {"Decref", "Incref"}) => ret' = ln.ret

(* pre-order ids of the (fresh) tree rooted at id in the logged state *)
RECURSIVE PreOrder(_, _)
RECURSIVE PreKids(_, _, _)
PreKids(ln, kids, k) == IF k > Len(kids) THEN <<>> ELSE PreOrder(ln, kids[k]) \o PreKids(ln, kids, k + 1)
PreOrder(ln, id) == LET n == CHOOSE n \in Range(ln.state) : n.id = id IN <<id>> \o PreKids(ln, n.kids, 1)

(* a tree that appears from outside the model (cbor_load): all nodes fresh, every count one *)
Adopt(ln) ==
  LET ids == Range(PreOrder(ln, ln.ret)) IN
  /\ ids \cap live = {} /\ \A i \in ids : item[i].t = "dead"
  /\ item' = [i \in DOMAIN item |-> IF i \in ids
                THEN LET n == CHOOSE n \in Range(ln.state) : n.id = i IN
                     [t |-> n.t, sub |-> n.sub, def |-> n.def, cap |-> n.cap, kids |-> n.kids, rc |-> 1]
                ELSE item[i]]
  /\ Cardinality(ids) = Len(PreOrder(ln, ln.ret))            \* a decoded tree shares nothing
  /\ live' = live \cup ids /\ client' = [client EXCEPT ![ln.ret] = 1]
  /\ grows' = grows /\ ret' = ln.ret /\ UNCHANGED bad

NewNode(ln) == LET n == CHOOSE n \in Range(ln.state) : n.id = ln.ret IN Node(n.t, n.sub, n.def, n.cap)

Step(ln) ==
  \/ IsOp("NewLeaf") /\ New(ln.ret, NewNode(ln))
  \/ IsOp("NewArr") /\ New(ln.ret, NewNode(ln))
  \/ IsOp("NewMap") /\ New(ln.ret, NewNode(ln))
  \/ IsOp("NewChunked") /\ New(ln.ret, NewNode(ln))
  \/ IsOp("NewTag") /\ New(ln.ret, NewNode(ln))
  \/ IsOp("Push") /\ Push(ln.a[1], ln.a[2], CapOf(ln.a[1]))
  \/ IsOp("MovePush") /\ MovePush(ln.a[1], ln.a[2], CapOf(ln.a[1]))
  \/ IsOp("Set") /\ Set(ln.a[1], ln.idx, ln.a[2], CapOf(ln.a[1]))
  \/ IsOp("Replace") /\ Replace(ln.a[1], ln.idx, ln.a[2])
  \/ IsOp("Get") /\ Get(ln.a[1], ln.idx)
  \/ IsOp("MapAdd") /\ MapAdd(ln.a[1], ln.a[2], ln.a[3], CapOf(ln.a[1]))
  \/ IsOp("AddChunk") /\ AddChunk(ln.a[1], ln.a[2], CapOf(ln.a[1]))
  \/ IsOp("TagSet") /\ TagSet(ln.a[1], ln.a[2])
  \/ IsOp("TagGet") /\ TagGet(ln.a[1])
  \/ IsOp("BuildTag") /\ BuildTag(ln.ret, ln.a[2])
  \/ IsOp("Incref") /\ Incref(ln.a[1])
  \/ IsOp("Decref") /\ Decref(ln.a[1])
  \/ IsOp("Copy") /\ ln.ret # 0 /\ Copy(ln.a[1], PreOrder(ln, ln.ret), [i \in Range(PreOrder(ln, ln.ret)) |-> CapOf(i)])
  \/ IsOp("Load") /\ (IF ln.ret = 0 THEN ret' = 0 /\ UNCHANGED <<live, item, client, bad, grows>>      \* refused input: nothing may remain
                                     ELSE Adopt(ln))
  \/ IsOp("Serialize") /\ Holds(ln.a[1]) /\ ret' = 1 /\ UNCHANGED <<live, item, client, bad, grows>>   \* reads only

(* reallocations this call cost are charged to the container it operated on (C12: logarithmic growth) *)
(* the allocator refused a request of this call: it must report failure and leave everything as it was *)
Refused(ln) == /\ l' = l + 1 /\ ln.ret = 0 /\ ret' = 0 /\ UNCHANGED <<live, item, client, bad, grows>>

TOp == /\ l <= Len(TraceLog) /\ Ln.e = "op"
       /\ IF Ln.x > 0 THEN Refused(Ln) ELSE Step(Ln)
       /\ StateMatches(Ln)
       /\ cost' = IF Ln.name \in {"Push", "MovePush", "Set", "MapAdd", "AddChunk"} THEN [cost EXCEPT ![Ln.a[1]] = @ + Ln.re] ELSE cost
       /\ (Judge = "C12" /\ Ln.name \in {"Replace", "Get"}) => Ln.re = 0          \* looking at or replacing a member moves nothing

(* end of a history: the client has dropped every reference: nothing obtained through the allocator remains *)
TEnd == /\ l <= Len(TraceLog) /\ Ln.e = "end" /\ l' = l + 1
        /\ live = {} /\ \A i \in DOMAIN client : client[i] = 0
        /\ (Judge = "C04" => Ln.live = 0 /\ Ln.foreign = 0)
        /\ UNCHANGED <<ivars, cost>>
TReset == /\ l <= Len(TraceLog) /\ Ln.e = "Reset" /\ l' = l + 1
          /\ live' = {} /\ item' = [i \in AllIds |-> Dead] /\ client' = [i \in AllIds |-> 0]
          /\ bad' = FALSE /\ grows' = [i \in AllIds |-> 0] /\ ret' = 0 /\ cost' = [i \in AllIds |-> 0]

(* n insertions into an indefinite container, capacity logged at every change (C12 growth clause) *)
TGrow == /\ l <= Len(TraceLog) /\ Ln.e = "grow" /\ l' = l + 1
         /\ Ln.refused <= Ln.injected /\ Ln.size = Ln.n            \* accepts any number of entries (an insertion fails only when the allocator refused)
         /\ Ln.under = 0 /\ Ln.changed_on_refusal = 0              \* the block really holds the recorded capacity; a refused insertion changes nothing
         /\ Ln.shrunk = 0 /\ Ln.over = 0 /\ Ln.wrong = 0           \* never shrinks, size within capacity, contents in order
         /\ Ln.reallocs <= 2 * Log2Ceil(Ln.n + 1) + 2                \* logarithmic number of reallocations
         /\ \A k \in 1..Len(Ln.caps) : Ln.caps[k][2] >= Ln.caps[k][1] /\ (k > 1 => Ln.caps[k][2] > Ln.caps[k - 1][2])
         /\ Ln.leaf_rc = (IF Ln.kind = 1 THEN 2 * Ln.n ELSE Ln.n) + 1 /\ Ln.leaf_rc_after = 1 /\ Ln.live = 0
         /\ UNCHANGED <<ivars, cost>>

(* a definite container preallocated for n entries: refused, or it really has room for what it says (size can never exceed a capacity that exists) *)
THuge == /\ l <= Len(TraceLog) /\ Ln.e = "hugecap" /\ l' = l + 1
         /\ (Ln.ok => ~Ln.under /\ Ln.cap_is_n) /\ Ln.live = 0
         /\ UNCHANGED <<ivars, cost>>

TNext == TOp \/ TEnd \/ TReset \/ TGrow \/ THuge
TSpec == TInit /\ [][TNext]_tvars

GrowthLogarithmic == \A i \in live : grows[i] <= 2 * Log2Ceil(Size(i) + 1) + 2
(* what the allocator actually saw (whatever the capacity field says): logarithmic in the number of members *)
CostLogarithmic == \A i \in live : cost[i] <= 2 * Log2Ceil(Size(i) + 1) + 2
=============================================================================
