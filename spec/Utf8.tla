-------------------------------- MODULE Utf8 --------------------------------
(* Strict UTF-8 per RFC 3629 section 4 (property C16), written twice:         *)
(*  - Count: directly from the ABNF (byte ranges)                             *)
(*  - CountNum: numerically (decode the scalar by lead-byte length, then      *)
(*    reject overlong forms, surrogates and values above U+10FFFF)            *)
(* MC_Utf8 checks that both agree on every byte sequence within the bound.    *)
(* Invalid = -1.                                                              *)
EXTENDS Naturals, Integers, Sequences

Cont(b) == b \in 128..191

(* length of the well-formed UTF-8 sequence starting at s[i], or 0 *)
SeqLen(s, i) ==
  LET n == Len(s)  b == s[i]
      T(k) == i + k <= n /\ Cont(s[i + k]) IN
  IF b <= 127 THEN 1                                                        \* UTF8-1
  ELSE IF b \in 194..223 /\ T(1) THEN 2                                     \* UTF8-2
  ELSE IF b = 224 /\ i + 1 <= n /\ s[i + 1] \in 160..191 /\ T(2) THEN 3     \* UTF8-3
  ELSE IF b \in 225..236 /\ T(1) /\ T(2) THEN 3
  ELSE IF b = 237 /\ i + 1 <= n /\ s[i + 1] \in 128..159 /\ T(2) THEN 3
  ELSE IF b \in 238..239 /\ T(1) /\ T(2) THEN 3
  ELSE IF b = 240 /\ i + 1 <= n /\ s[i + 1] \in 144..191 /\ T(2) /\ T(3) THEN 4   \* UTF8-4
  ELSE IF b \in 241..243 /\ T(1) /\ T(2) /\ T(3) THEN 4
  ELSE IF b = 244 /\ i + 1 <= n /\ s[i + 1] \in 128..143 /\ T(2) /\ T(3) THEN 4
  ELSE 0

RECURSIVE CountR(_, _, _)
CountR(s, i, acc) == IF i > Len(s) THEN acc
                     ELSE LET k == SeqLen(s, i) IN IF k = 0 THEN -1 ELSE CountR(s, i + k, acc + 1)
Count(s) == CountR(s, 1, 0)

(* ---- second formulation: numeric ---- *)
LeadLen(b) == IF b <= 127 THEN 1 ELSE IF b \in 192..223 THEN 2 ELSE IF b \in 224..239 THEN 3 ELSE IF b \in 240..247 THEN 4 ELSE 0
Scalar(s, i, k) ==
  CASE k = 1 -> s[i]
    [] k = 2 -> (s[i] - 192) * 64 + (s[i + 1] - 128)
    [] k = 3 -> (s[i] - 224) * 4096 + (s[i + 1] - 128) * 64 + (s[i + 2] - 128)
    [] OTHER -> (s[i] - 240) * 262144 + (s[i + 1] - 128) * 4096 + (s[i + 2] - 128) * 64 + (s[i + 3] - 128)
MinLen(c) == IF c < 128 THEN 1 ELSE IF c < 2048 THEN 2 ELSE IF c < 65536 THEN 3 ELSE 4
SeqLenNum(s, i) ==
  LET k == LeadLen(s[i]) IN
  IF k = 0 \/ i + k - 1 > Len(s) THEN 0
  ELSE IF \E j \in 1..(k - 1) : ~Cont(s[i + j]) THEN 0
  ELSE LET c == Scalar(s, i, k) IN
       IF MinLen(c) # k \/ c \in 55296..57343 \/ c > 1114111 THEN 0 ELSE k
RECURSIVE CountNumR(_, _, _)
CountNumR(s, i, acc) == IF i > Len(s) THEN acc
                        ELSE LET k == SeqLenNum(s, i) IN IF k = 0 THEN -1 ELSE CountNumR(s, i + k, acc + 1)
CountNum(s) == CountNumR(s, 1, 0)

(* what cbor_string_codepoint_count must report *)
Reported(s) == IF Count(s) < 0 THEN 0 ELSE Count(s)

(* the partition of the byte values induced by the range endpoints of the ABNF: bytes of one class are *)
(* interchangeable in every rule above                                                                  *)
ClassLo == <<0, 128, 144, 160, 192, 194, 224, 225, 237, 238, 240, 241, 244, 245>>
ClassHi == <<127, 143, 159, 191, 193, 223, 224, 236, 237, 239, 240, 243, 244, 255>>
ClassOf(b) == CHOOSE c \in 1..14 : b \in ClassLo[c]..ClassHi[c]
AbnfRanges == {0..127, 128..191, 194..223, {224}, 160..191, 225..236, {237}, 128..159, 238..239, {240}, 144..191, 241..243, {244}, 128..143}
=============================================================================
