----------------------------- MODULE CborThreads -----------------------------
(* Concurrency argument for C17 / C18. libcbor has no synchronisation of its   *)
(* own; what makes concurrent use safe is a FOOTPRINT discipline:              *)
(*   - the only library globals are the three allocator pointers, written by   *)
(*     cbor_set_allocs (allocators.c:10-19) before threads start, and the      *)
(*     constant callback table of cbor_load (cbor.c:15-46), never written;     *)
(*   - an operation writes only blocks owned by the calling thread's items;    *)
(*   - read-only operations (serialize, size, predicates, getters that hand    *)
(*     out no reference) write nothing at all, so one tree may be shared.      *)
(* Operations are sequences of atomic accesses; TLC interleaves them in every  *)
(* possible way. Happens-before is only thread creation and join.              *)
(* Race: two accesses to one location by different threads, at least one a     *)
(* write, not ordered by creation/join.                                        *)
EXTENDS Naturals, Sequences, FiniteSets, TLC

CONSTANTS Threads,       \* worker threads
          Progs          \* Progs[t]: sequence of operations, each a sequence of accesses [loc, w]

VARIABLES phase,         \* "config" | "run" | "joined"
          pc,            \* pc[t] = <<operation index, access index>>
          mem,           \* loc -> last writer ("init", "main" or a thread): the value
          seen,          \* seen[t]: sequence of values thread t has read (its result)
          log            \* set of accesses performed in the parallel phase: [t, loc, w]
tvars == <<phase, pc, mem, seen, log>>

L(a) == <<a, "-">>                       \* every location is a pair of strings (own blocks: <<"own", thread>>)
Globals == {L("g_malloc"), L("g_realloc"), L("g_free")}
Locs == Globals \cup {L("table"), L("shared")} \cup {<<"own", t>> : t \in Threads}

Init == /\ phase = "config"
        /\ pc = [t \in Threads |-> <<1, 1>>]
        /\ mem = [l \in Locs |-> "init"]
        /\ seen = [t \in Threads |-> <<>>]
        /\ log = {}

(* cbor_set_allocs, once, before any thread exists; the shared tree is built by the main thread too *)
Configure == /\ phase = "config"
             /\ mem' = [l \in Locs |-> IF l \in Globals \cup {L("shared")} THEN "main" ELSE mem[l]]
             /\ phase' = "run"
             /\ UNCHANGED <<pc, seen, log>>

Done(t) == pc[t][1] > Len(Progs[t])
Step(t) ==
  /\ phase = "run" /\ ~Done(t)
  /\ LET op == Progs[t][pc[t][1]]
         ac == op[pc[t][2]] IN
     /\ log' = log \cup {[t |-> t, loc |-> ac.loc, w |-> ac.w]}
     /\ IF ac.w THEN mem' = [mem EXCEPT ![ac.loc] = t] /\ UNCHANGED seen
        ELSE seen' = [seen EXCEPT ![t] = Append(@, mem[ac.loc])] /\ UNCHANGED mem
     /\ pc' = [pc EXCEPT ![t] = IF pc[t][2] = Len(op) THEN <<pc[t][1] + 1, 1>> ELSE <<pc[t][1], pc[t][2] + 1>>]
  /\ UNCHANGED phase
Join == /\ phase = "run" /\ \A t \in Threads : Done(t)
        /\ phase' = "joined" /\ UNCHANGED <<pc, mem, seen, log>>
Next == Configure \/ Join \/ \E t \in Threads : Step(t)
Spec == Init /\ [][Next]_tvars

(* C17: no schedule contains a data race *)
NoRace == \A x \in log, y \in log : (x.t # y.t /\ x.loc = y.loc) => (~x.w /\ ~y.w)
(* C17: every thread obtains the results it would obtain running alone: what it reads is either what was there   *)
(* before the threads started or what it wrote itself                                                            *)
AsIfAlone == \A t \in Threads : \A k \in 1..Len(seen[t]) : seen[t][k] \in {"init", "main", t}

(* ---- footprints of the operation classes (the premise; established on the real code by the checks) ---- *)
R(l) == [loc |-> l, w |-> FALSE]
Wr(l) == [loc |-> l, w |-> TRUE]
(* decode / build / copy / serialize_alloc / release on thread-private data *)
PrivateOp(t) == <<R(L("g_malloc")), R(L("table")), Wr(<<"own", t>>), R(<<"own", t>>), R(L("g_realloc")), Wr(<<"own", t>>), R(L("g_free"))>>
(* serialize / size / predicates / getters on the shared tree into a private buffer *)
SharedRead(t) == <<R(L("shared")), Wr(<<"own", t>>), R(L("shared"))>>
(* what the unrepaired library did: cbor_serialize reached a tagged item through cbor_tag_item + cbor_move *)
SharedReadWithRefcountBlip(t) == <<R(L("shared")), Wr(L("shared")), Wr(L("shared")), Wr(<<"own", t>>)>>
(* a library that cached something in a static variable *)
OpWithStaticScratch(t) == <<R(L("g_malloc")), Wr(L("table")), R(L("table")), Wr(<<"own", t>>)>>
=============================================================================
