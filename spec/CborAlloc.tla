------------------------------ MODULE CborAlloc ------------------------------
(* The memory layer (allocators.c, common.h:110-133, memory_utils.c:42-57 and  *)
(* every _cbor_malloc/_realloc/_free site) seen from the installed allocator:  *)
(*  - the DISCIPLINE of property C13 as a state machine over allocator events  *)
(*    (every block released or resized was handed out by the installed         *)
(*    allocator and is still live; each is released once; pure operations      *)
(*    produce no event at all);                                                *)
(*  - an OPERATION as a transaction over that heap with a fault schedule       *)
(*    (property C06): requests are served or refused; after a refusal the      *)
(*    operation unwinds, reports failure and leaves the heap as it found it.   *)
EXTENDS CborAllocEvents

(* ---- the transaction pattern, as a state machine (checked by MC_AllocFault) ---- *)
CONSTANTS MaxReq,        \* an operation makes at most this many requests
          MaxBlocks      \* ids 1..MaxBlocks
VARIABLES heap,          \* live blocks
          phase,         \* "idle" | "run" | "unwind" | "done"
          mine,          \* blocks this operation obtained and still holds
          temp,          \* of those, the temporaries it must release even on success
          snap,          \* heap at operation begin
          reqs,          \* requests made so far in this operation
          need,          \* requests the operation makes when nothing is refused
          fault,         \* [mode |-> "none" | "only" | "from", k |-> request index]
          outcome        \* "none" | "ok" | "fail"
avars == <<heap, phase, mine, temp, snap, reqs, need, fault, outcome>>

Refused(i) == (fault.mode = "only" /\ i = fault.k) \/ (fault.mode = "from" /\ i >= fault.k)
Fresh(h) == IF \E b \in 1..MaxBlocks : b \notin h THEN CHOOSE b \in 1..MaxBlocks : b \notin h /\ \A c \in 1..MaxBlocks : c \notin h => b <= c ELSE 0

Begin(n, f) == /\ phase \in {"idle", "done"} /\ n \in 1..MaxReq
               /\ phase' = "run" /\ need' = n /\ fault' = f /\ snap' = heap /\ reqs' = 0 /\ mine' = {} /\ temp' = {} /\ outcome' = "none"
               /\ UNCHANGED heap
(* one allocation request: served (a fresh block, possibly a temporary) or refused per the schedule *)
Request(isTemp) ==
  /\ phase = "run" /\ reqs < need
  /\ reqs' = reqs + 1
  /\ IF Refused(reqs) \/ Fresh(heap) = 0
       THEN phase' = "unwind" /\ UNCHANGED <<heap, mine, temp>>
       ELSE LET b == Fresh(heap) IN
            /\ heap' = heap \cup {b} /\ mine' = mine \cup {b} /\ temp' = IF isTemp THEN temp \cup {b} ELSE temp
            /\ phase' = "run"
  /\ UNCHANGED <<snap, need, fault, outcome>>
(* a growth step: realloc of a block of the operation's own (old block gone, new block in) or refusal that keeps the old one *)
Regrow ==
  /\ phase = "run" /\ reqs < need /\ mine # {}
  /\ reqs' = reqs + 1
  /\ IF Refused(reqs) \/ Fresh(heap) = 0
       THEN phase' = "unwind" /\ UNCHANGED <<heap, mine, temp>>
       ELSE \E old \in mine : LET b == Fresh(heap) IN
            /\ heap' = (heap \ {old}) \cup {b} /\ mine' = (mine \ {old}) \cup {b}
            /\ temp' = IF old \in temp THEN (temp \ {old}) \cup {b} ELSE temp
            /\ phase' = "run"
  /\ UNCHANGED <<snap, need, fault, outcome>>
(* error path: release everything obtained so far, one block per step *)
Unwind == /\ phase = "unwind" /\ mine # {}
          /\ \E b \in mine : heap' = heap \ {b} /\ mine' = mine \ {b} /\ temp' = temp \ {b}
          /\ UNCHANGED <<phase, snap, reqs, need, fault, outcome>>
Fail == /\ phase = "unwind" /\ mine = {}
        /\ phase' = "done" /\ outcome' = "fail"
        /\ UNCHANGED <<heap, mine, temp, snap, reqs, need, fault>>
(* success path: temporaries go, results stay *)
DropTemp == /\ phase = "run" /\ reqs = need /\ temp # {}
            /\ \E b \in temp : heap' = heap \ {b} /\ mine' = mine \ {b} /\ temp' = temp \ {b}
            /\ UNCHANGED <<phase, snap, reqs, need, fault, outcome>>
Succeed == /\ phase = "run" /\ reqs = need /\ temp = {}
           /\ phase' = "done" /\ outcome' = "ok"
           /\ UNCHANGED <<heap, mine, temp, snap, reqs, need, fault>>

(* C06 *)
FailureIsClean == (phase = "done" /\ outcome = "fail") => heap = snap            \* everything released, nothing else touched
FailureIsReported == (phase = "done" /\ outcome = "ok") => ~(\E i \in 0..(need - 1) : Refused(i))
SuccessKeepsOnlyResults == (phase = "done" /\ outcome = "ok") => (snap \subseteq heap /\ heap \ snap = mine)
=============================================================================
