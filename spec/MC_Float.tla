------------------------------- MODULE MC_Float -------------------------------
(* C15 at the level of the specification. kind = "half": for all 65,536 half    *)
(* patterns, encoding the single it denotes with the algorithm of               *)
(* cbor_encode_half (EncodeHalfImpl) gives the pattern back (NaN: 0x7e00) and   *)
(* agrees with the requirement EncodeHalfReq. kind = "single": for every         *)
(* exponent 0..255 x boundary mantissas x sign, the algorithm is total: every    *)
(* shift count in range, every narrowing exact; and on half-representable        *)
(* values it meets the requirement.                                             *)
EXTENDS CborFloat, TLC

VARIABLES kind, x

Mants == {0, 1, 2, 4095, 4096, 8191, 8192, 8193, 4194303, 4194304, 4194305, 8388607} \cup {2^k : k \in 0..22}
Init == \/ kind = "half" /\ x \in 0..65535
        \/ kind = "single" /\ x \in {<<s, e, m>> : s \in {0, 1}, e \in 0..255, m \in Mants}
Next == UNCHANGED <<kind, x>>
Spec == Init /\ [][Next]_<<kind, x>>

H == HalfOfInt(x)
F == MkSingle(x[1], x[2], x[3])

HalfRoundTrip == kind = "half" =>
   IF HalfIsNaN(H) THEN EncodeHalfImplBytes(HalfToSingle(H)) = CanonNaN16 /\ SingleIsNaN(HalfToSingle(H))
   ELSE /\ EncodeHalfImplBytes(HalfToSingle(H)) = H
        /\ EncodeHalfReq(HalfToSingle(H)) = H
        /\ HalfRepresentable(HalfToSingle(H))
        /\ EncodeHalfImpl(HalfToSingle(H)).ok
Total == kind = "single" => EncodeHalfImpl(F).ok /\ EncodeHalfImpl(F).res \in 0..65535
MeetsReq == (kind = "single" /\ (HalfRepresentable(F) \/ SingleIsNaN(F))) => EncodeHalfImplBytes(F) = EncodeHalfReq(F)
(* a half-representable single is the image of exactly the half the requirement names *)
ReqInverse == (kind = "single" /\ HalfRepresentable(F)) => HalfToSingle(EncodeHalfReq(F)) = F
=============================================================================
