SPECIFICATION Spec
INVARIANT HalfRoundTrip
INVARIANT Total
INVARIANT MeetsReq
INVARIANT ReqInverse
