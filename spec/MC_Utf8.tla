------------------------------- MODULE MC_Utf8 -------------------------------
(* Every sequence of class representatives (lowest and highest byte of each of *)
(* the 14 classes) up to MaxLen: the ABNF transcription and the numeric        *)
(* definition agree; and the class partition is exact (two bytes of one class  *)
(* lie in exactly the same ABNF ranges), which is what lets the harness expand *)
(* a class sequence to all its concrete byte sequences.                        *)
EXTENDS Utf8, TLC
CONSTANT MaxLen
VARIABLE s

Reps == {ClassLo[c] : c \in 1..14} \cup {ClassHi[c] : c \in 1..14}
Init == s = <<>>
Next == Len(s) < MaxLen /\ \E b \in Reps : s' = Append(s, b)
Spec == Init /\ [][Next]_s

Agree == Count(s) = CountNum(s)
PartitionExact == \A c \in 1..14 : \A R \in AbnfRanges : (ClassLo[c] \in R) = (ClassHi[c] \in R) /\ \A b \in ClassLo[c]..ClassHi[c] : (b \in R) = (ClassLo[c] \in R)
PartitionCovers == \A b \in 0..255 : \E c \in 1..14 : b \in ClassLo[c]..ClassHi[c]
(* a valid text stays valid, with the counts adding up, when two valid texts are concatenated *)
Additive == (Count(s) >= 0 /\ Len(s) >= 2) => \A k \in 1..(Len(s) - 1) :
               (Count(SubSeq(s, 1, k)) >= 0 /\ Count(SubSeq(s, k + 1, Len(s))) >= 0) =>
                  Count(s) = Count(SubSeq(s, 1, k)) + Count(SubSeq(s, k + 1, Len(s)))
=============================================================================
