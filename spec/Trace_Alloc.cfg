SPECIFICATION Spec
