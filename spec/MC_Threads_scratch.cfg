SPECIFICATION Spec
CONSTANTS
  Threads <- T2
  Progs <- ScratchProgs
INVARIANT NoRace
