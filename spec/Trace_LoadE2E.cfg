SPECIFICATION ESpec
