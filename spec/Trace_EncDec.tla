---------------------------- MODULE Trace_EncDec ----------------------------
(* C10: each recorded cbor_encode_X(value) call produced exactly the head     *)
(* CborEncode demands, and the streaming decoder, run on exactly those bytes, *)
(* fired the callback of the matching kind with the identical value and read  *)
(* exactly the bytes written. C07 (encoders): every buffer size 0..10.        *)
EXTENDS CborEncode, CborWire, Json, IOUtils, TLC

TraceLog == ndJsonDeserialize(IOEnv.TRACE)
VARIABLE l

EncJudge(ln, want, d) ==
  /\ ln.ret = Len(want) /\ ln.out = want                  \* the RFC 8949 head, big-endian, at the demanded width
  /\ IF Kind(want[1]) = "rsv"                             \* unassigned simple values: encoded per RFC, not decodable
       THEN ln.st = "error" /\ ln.calls = 0
     ELSE IF IsStr(Kind(want[1])) /\ d.st = "nedata"      \* a string head announcing a payload that is not there
       THEN ln.st = "nedata" /\ ln.calls = 0 /\ RequiredOK(ln.req, Len(want), d.full)
     ELSE /\ ln.st = "fin" /\ ln.calls = 1 /\ ln.ctx /\ ln.read = Len(want)      \* consumes exactly the bytes written
          /\ ln.slot = d.slot                                          \* callback of the matching kind
          /\ CASE ln.f = "half" -> (IF SingleIsNaN(ln.a) THEN SingleIsNaN(ln.arg) ELSE ln.arg = ln.a)   \* identical value
               [] ln.f = "single" -> (IF SingleIsNaN(ln.a) THEN SingleIsNaN(ln.arg) ELSE ln.arg = ln.a)
               [] ln.f = "double" -> (IF DoubleIsNaN(ln.a) THEN DoubleIsNaN(ln.arg) ELSE ln.arg = ln.a)
               [] ln.f = "bool" -> ln.arg = ln.a
               [] d.kind \in {"true", "false"} -> ln.arg = d.arg          \* (ctrl 20 / 21 are the booleans)
               [] HasArg(d.kind) -> Eq(ln.arg, ln.a)
               [] OTHER -> ln.arg = <<>>
EncOK(ln) == EncJudge(ln, EncoderBytes(ln.f, ln.a), StreamDecode(EncoderBytes(ln.f, ln.a), Len(EncoderBytes(ln.f, ln.a))))

(* buffer contract of one encoder call with an n-byte buffer; `full` = what it writes given room *)
EncNOK(ln) ==
  /\ ln.rets_agree
  /\ ln.ret = (IF ln.n >= ln.size THEN ln.size ELSE 0)     \* the bytes written, or 0 ...
  /\ ~ln.over /\ ln.mod <= ln.ret                           \* ... all inside the buffer; untouched when 0
  /\ (ln.ret > 0 => ln.out = ln.full)
  /\ ln.size = Len(ln.full) /\ ln.size > 0

LineOK(ln) == IF ln.e = "enc" THEN EncOK(ln) ELSE EncNOK(ln)
Init == l = 1
Next == l <= Len(TraceLog) /\ LineOK(TraceLog[l]) /\ l' = l + 1
Spec == Init /\ [][Next]_l
=============================================================================
