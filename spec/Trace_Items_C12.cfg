SPECIFICATION TSpec
CONSTANTS
  NoId = 0
INVARIANT EdgesLive
INVARIANT SizeWithinCap
INVARIANT Acyclic
INVARIANT GrowthLogarithmic
INVARIANT CostLogarithmic
