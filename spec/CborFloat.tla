------------------------------ MODULE CborFloat ------------------------------
(* IEEE-754 binary16/32/64 as byte sequences (big-endian, as on the wire).    *)
(* HalfToSingle is the requirement for decoding (loaders.c:53-71);            *)
(* EncodeHalfImpl transcribes cbor_encode_half (encoding.c:137-186) with      *)
(* every shift count and narrowing made explicit so that totality (C15) is a  *)
(* checkable invariant; EncodeHalfReq is what C03/C15 demand of it.           *)
EXTENDS Naturals, Sequences, Bitwise

Pow2(n) == 2 ^ n

(* ---- field access ---- *)
HSign(h) == h[1] \div 128
HExp(h)  == (h[1] % 128) \div 4
HMant(h) == (h[1] % 4) * 256 + h[2]
MkHalf(s, e, m) == << s * 128 + e * 4 + m \div 256, m % 256 >>
HalfOfInt(x) == << x \div 256, x % 256 >>          \* x in 0..65535
IntOfHalf(h) == h[1] * 256 + h[2]

SSign(f) == f[1] \div 128
SExp(f)  == (f[1] % 128) * 2 + f[2] \div 128
SMant(f) == (f[2] % 128) * 65536 + f[3] * 256 + f[4]
MkSingle(s, e, m) == << s * 128 + e \div 2, (e % 2) * 128 + m \div 65536, (m \div 256) % 256, m % 256 >>

DSign(d) == d[1] \div 128
DExp(d)  == (d[1] % 128) * 16 + d[2] \div 16
DMantZero(d) == d[2] % 16 = 0 /\ \A i \in 3..8 : d[i] = 0

HalfIsNaN(h)   == HExp(h) = 31 /\ HMant(h) # 0
SingleIsNaN(f) == SExp(f) = 255 /\ SMant(f) # 0
DoubleIsNaN(d) == DExp(d) = 2047 /\ ~DMantZero(d)

CanonNaN16 == << 126, 0 >>                         \* 0x7e00
CanonNaN32 == << 127, 192, 0, 0 >>                 \* 0x7fc00000
CanonNaN64 == << 127, 248, 0, 0, 0, 0, 0, 0 >>     \* 0x7ff8000000000000

(* index of the highest set bit of m > 0 *)
RECURSIVE HiBit(_)
HiBit(m) == IF m <= 1 THEN 0 ELSE 1 + HiBit(m \div 2)

(* ---- the value a half denotes, as a single (exact: every half is one) ---- *)
HalfToSingle(h) == LET s == HSign(h) e == HExp(h) m == HMant(h) IN
  IF e = 0 THEN (IF m = 0 THEN MkSingle(s, 0, 0)
                 ELSE LET p == HiBit(m) IN MkSingle(s, p + 103, (m - Pow2(p)) * Pow2(23 - p)))
  ELSE IF e < 31 THEN MkSingle(s, e + 112, m * 8192)
  ELSE IF m = 0 THEN MkSingle(s, 255, 0)
  ELSE MkSingle(s, 255, 4194304)                   \* some NaN; callers test HalfIsNaN first

(* is this single exactly representable as a half (incl. zeros, subnormals, infinities)? *)
HalfRepresentable(f) == LET e == SExp(f) m == SMant(f) IN
  \/ (e = 0 /\ m = 0)
  \/ (e = 255 /\ m = 0)
  \/ (e \in 113..142 /\ m % 8192 = 0)
  \/ (e \in 103..112 /\ m % Pow2(126 - e) = 0)      \* subnormal halves: 2^(e-127) * 1.m, unit 2^-24

(* ---- requirement: the half that encodes single f (f half-representable or NaN) ---- *)
EncodeHalfReq(f) == LET s == SSign(f) e == SExp(f) m == SMant(f) IN
  IF SingleIsNaN(f) THEN CanonNaN16
  ELSE IF e = 255 THEN MkHalf(s, 31, 0)
  ELSE IF e = 0 THEN MkHalf(s, 0, 0)                \* only +-0 is representable down there
  ELSE IF e >= 113 THEN MkHalf(s, e - 112, m \div 8192)
  ELSE MkHalf(s, 0, Pow2(e - 103) + m \div Pow2(126 - e))

(* ---- cbor_encode_half as written, on naturals; returns the uint16 `res` and   *)
(*      whether every shift count was in 0..31 and every int8 narrowing exact ---- *)
EncodeHalfImpl(f) ==
  LET sign16 == SSign(f) * 32768          \* (val & 0x80000000u) >> 16u
      exp    == SExp(f)
      mant   == SMant(f)
      u16(x) == x % 65536
  IN
  IF exp = 255 THEN
     [res |-> IF mant # 0 THEN 32256 ELSE u16(sign16 | 31744), ok |-> TRUE]
  ELSE IF exp = 0 THEN
     [res |-> u16(sign16 | (mant \div 8192)), ok |-> TRUE]
  ELSE
     \* int8_t logical_exp = (int8_t)(exp - 127); exp in 1..254 so exp-127 in -126..127: exact
     LET neg == exp < 127
         mag == IF neg THEN 127 - exp ELSE exp - 127       \* |logical_exp|
         narrow_ok == (IF neg THEN mag <= 128 ELSE mag <= 127)
     IN
     IF neg /\ mag > 24 THEN [res |-> 0, ok |-> narrow_ok]
     ELSE IF neg /\ mag > 14 THEN
        \* 1u << (24u + logical_exp): count 24 - mag in 0..9 ; mant >> (-logical_exp - 2): count mag - 2 in 13..22
        LET c1 == 24 - mag  c2 == mag - 2 IN
        [res |-> u16(sign16 | (u16(Pow2(c1)) + u16(((mant \div Pow2(c2)) + 1) \div 2))),
         ok  |-> narrow_ok /\ c1 \in 0..31 /\ c2 \in 0..31]
     ELSE
        \* ((uint8_t)logical_exp + 15u) << 10u
        LET u8 == IF neg /\ mag > 0 THEN 256 - mag ELSE mag IN
        [res |-> u16(sign16 | ((u8 + 15) * 1024) | (mant \div 8192)), ok |-> narrow_ok]

EncodeHalfImplBytes(f) == HalfOfInt(EncodeHalfImpl(f).res)

(* single / double encoders: identity unless NaN *)
EncodeSingleReq(f) == IF SingleIsNaN(f) THEN CanonNaN32 ELSE f
EncodeDoubleReq(d) == IF DoubleIsNaN(d) THEN CanonNaN64 ELSE d
=============================================================================
