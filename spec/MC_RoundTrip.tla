---------------------------- MODULE MC_RoundTrip ----------------------------
(* C03 at the level of the specification: for every tree of a bounded space   *)
(* (all types, all stored widths, the boundary values, empty and multi-chunk  *)
(* strings, nesting depth 2) the encoding demanded by CborEncode is decoded   *)
(* by the reference decoder (CborWire + CborGrammar) into an equal tree,      *)
(* consuming all bytes, and re-encodes to identical bytes. Guards the spec's   *)
(* own Encode against the independently written decoding half.                *)
EXTENDS CborEncode, CborLoadRef, TLC

CONSTANT Wide        \* TRUE: depth-2 containers with up to two members (thorough); FALSE: one member
VARIABLE t

IntVals == {<<>>, <<23>>, <<24>>, <<255>>, <<1, 0>>, <<255, 255>>, <<1, 0, 0>>, <<255, 255, 255, 255>>, <<1, 0, 0, 0, 0>>, Max64}
Ints == {Mk(k, w, TRUE, v, <<>>) : k \in {"uint", "negint"}, w \in {1, 2, 4, 8}, v \in IntVals} 
IntsOK == {x \in Ints : Fits(x.v, x.w)}
Strs == {Mk(k, 0, TRUE, p, <<>>) : k \in {"bstr", "tstr"}, p \in {<<>>, <<97>>, <<195, 169>>}}
HalfSamples == {<<0, 0>>, <<128, 0>>, <<0, 1>>, <<3, 255>>, <<4, 0>>, <<60, 0>>, <<123, 255>>, <<124, 0>>, <<252, 0>>, <<126, 0>>, <<125, 1>>}
Floats == {Mk("float", 2, TRUE, HalfToSingle(h), <<>>) : h \in HalfSamples}
          \cup {Mk("float", 4, TRUE, f, <<>>) : f \in {<<0, 0, 0, 0>>, <<63, 128, 0, 0>>, <<127, 128, 0, 0>>, <<127, 128, 0, 1>>, <<255, 192, 0, 0>>, <<51, 128, 0, 1>>}}
          \cup {Mk("float", 8, TRUE, d, <<>>) : d \in {<<0, 0, 0, 0, 0, 0, 0, 0>>, <<63, 240, 0, 0, 0, 0, 0, 0>>, <<127, 240, 0, 0, 0, 0, 0, 1>>, <<255, 240, 0, 0, 0, 0, 0, 0>>}}
Ctrls == {Mk("ctrl", 0, TRUE, <<v>>, <<>>) : v \in 20..23}
Leaves == IntsOK \cup Strs \cup Floats \cup Ctrls
L0 == {Mk("uint", 1, TRUE, <<>>, <<>>), Mk("uint", 2, TRUE, <<24>>, <<>>), Mk("tstr", 0, TRUE, <<97>>, <<>>), Mk("ctrl", 0, TRUE, <<22>>, <<>>),
       Mk("float", 2, TRUE, HalfToSingle(<<60, 0>>), <<>>)}

SeqUpTo2(S) == {<<>>} \cup {<<x>> : x \in S} \cup {<<x, y>> : x \in S, y \in S}
SeqUpTo1(S) == {<<>>} \cup {<<x>> : x \in S}
Containers(S, Ks, wide) ==
     {Mk("arr", 0, d, <<>>, its) : d \in BOOLEAN, its \in IF wide THEN SeqUpTo2(S) ELSE SeqUpTo1(S)}
  \cup {Mk("map", 0, d, <<>>, its) : d \in BOOLEAN, its \in {<<>>} \cup {<<k, v>> : k \in Ks, v \in S}}
  \cup {Mk("tag", 0, TRUE, v, <<x>>) : v \in {<<>>, <<24>>, <<1, 0>>, Max64}, x \in S}
Chunked == {Mk(k, 0, FALSE, <<>>, its) : k \in {"bstr"}, its \in SeqUpTo2({s \in Strs : s.t = "bstr"})}
       \cup {Mk(k, 0, FALSE, <<>>, its) : k \in {"tstr"}, its \in SeqUpTo2({s \in Strs : s.t = "tstr"})}
T1 == Leaves \cup Containers(L0, L0, TRUE) \cup Chunked
T2 == Containers(T1, L0, Wide)
Trees == T1 \cup T2

Init == t \in Trees
Next == UNCHANGED t
Spec == Init /\ [][Next]_t

B == Encode(t)
R == LoadRef(B, 8)
RoundTrip == R.ok /\ R.pos = Len(B) /\ TreeEq(R.tree[1], t)
Stable == R.ok => Encode(R.tree[1]) = B
InDom == InDomain(t)
(* fixed-buffer contract as a function of n, for every n up to size + 2 *)
SizeContract == \A n \in 0..(Len(B) + 2) : SerializeRet(t, n) = (IF n >= Len(B) THEN Len(B) ELSE 0)
(* every proper prefix of an encoding is "not enough data", never a hard error (C05) *)
PrefixSoft == \A n \in 0..(Len(B) - 1) :
                 LET r == LoadRef(SubSeq(B, 1, n), 8) IN ~r.ok /\ r.code = (IF n = 0 THEN "nodata" ELSE "nedata")
=============================================================================
