----------------------------- MODULE Trace_Stream -----------------------------
(* C09: recorded runs of the incremental client around the real decoder are    *)
(* replayed through StreamClient: every call's window is the buffered part of  *)
(* the stream, its result is what CborWire says (the value of `required` only  *)
(* has to satisfy the contract), the delivered events are -- one by one -- the *)
(* tokenisation of the whole stream, and at the end nothing is missing.        *)
EXTENDS StreamClient, Json, IOUtils, TLC

TraceLog == ndJsonDeserialize(IOEnv.TRACE)
VARIABLES l, toks           \* toks: tokenisation of the current stream (computed once per run)
Ln == TraceLog[l]
Is(e) == l <= Len(TraceLog) /\ TraceLog[l].e = e /\ l' = l + 1

TInit == SInit(<<>>) /\ l = 1 /\ toks = Toks(<<>>)

TStream == /\ Is("stream")
           /\ stream' = Ln.bytes /\ arrived' = 0 /\ consumed' = 0 /\ waitFor' = 0 /\ events' = <<>> /\ stopped' = FALSE
           /\ toks' = Toks(Ln.bytes)
TArrive == Is("arrive") /\ Arrive(Ln.k) /\ UNCHANGED toks

CallJudge(ln, r) ==
  /\ ln.buffered = Buffered /\ ln.win = Window                 \* the decoder saw exactly what is buffered
  /\ ln.st = r.st /\ ln.allocs = 0
  /\ Decode(ln.req)                                             \* the client step (checks the `required` contract on NEDATA)
  /\ ln.st = "fin" =>
       /\ ln.calls = 1 /\ ln.ctx /\ ln.read = r.read /\ ln.slot = r.slot
       /\ Len(events') <= Len(toks.evs)                         \* same callbacks, same arguments, same order:
       /\ events'[Len(events')] = toks.evs[Len(events')]        \* the next token of the one-shot tokenisation
       /\ (IF r.kind \in {"f16", "f32", "f64"} THEN FloatArgOK(r.kind, r.arg, ln.arg)
           ELSE IF r.kind \in {"true", "false"} THEN ln.arg = r.arg
           ELSE IF HasArg(r.kind) THEN Eq(ln.arg, r.arg) ELSE ln.arg = <<>>)
       /\ (IsStr(r.kind) => ln.off = r.off)
  /\ ln.st # "fin" => ln.calls = 0 /\ ln.read = 0
TCall == Is("call") /\ CallJudge(Ln, StreamDecode(Window, Buffered)) /\ UNCHANGED toks

TEnd == /\ Is("end")
        /\ arrived = Len(stream)
        /\ Ln.delivered = Len(events) /\ Ln.consumed = consumed
        /\ (toks.end = "eof" => events = toks.evs /\ consumed = Len(stream))   \* delivered completely
        /\ (toks.end = "error" => stopped /\ events = toks.evs)
        /\ (toks.end = "nedata" => events = toks.evs /\ ~stopped)
        /\ UNCHANGED <<svars, toks>>
TNext == TStream \/ TArrive \/ TCall \/ TEnd
TSpec == TInit /\ [][TNext]_<<svars, l, toks>>
=============================================================================
