--------------------------- MODULE CborAllocEvents ---------------------------
(* The allocator DISCIPLINE of property C13 as a fold over logged allocator    *)
(* events: every block released or resized was handed out by the installed     *)
(* allocator and is still live; each is released exactly once.                 *)
EXTENDS Naturals, Sequences, FiniteSets

(* ---- discipline: fold one logged event into the set of live blocks; Bad marks a violation ---- *)
Bad == {0}                 \* (0 is NULL, never a block id)
(* e.op: "M" malloc -> a ; "R" realloc a -> b (a = 0: NULL) ; "F" free a ; "X" request refused ;                 *)
(*       "f" free / "r" realloc of a pointer the installed allocator never handed out, or already released       *)
ApplyEvent(blocks, e) ==
  IF blocks = Bad THEN Bad
  ELSE CASE e.op = "M" -> IF e.a \in blocks THEN Bad ELSE blocks \cup {e.a}
         [] e.op = "R" -> IF (e.a # 0 /\ e.a \notin blocks) \/ e.b \in blocks THEN Bad ELSE (blocks \ {e.a}) \cup {e.b}
         [] e.op = "F" -> IF e.a \notin blocks THEN Bad ELSE blocks \ {e.a}
         [] e.op = "X" -> blocks
         [] OTHER -> Bad
RECURSIVE ApplyAll(_, _, _)
ApplyAll(blocks, evs, k) == IF k > Len(evs) THEN blocks ELSE ApplyAll(ApplyEvent(blocks, evs[k]), evs, k + 1)
Refusals(evs) == Cardinality({k \in 1..Len(evs) : evs[k].op = "X"})

=============================================================================
