SPECIFICATION Spec
CONSTANTS
  L = 2
  MaxLen = 4
  MaxRefusals = 0
INVARIANT NeverLazy
