------------------------------- MODULE Sim_Items -------------------------------
(* A-direction for CborItems: TLC walks the bounded model (tlc -simulate) and    *)
(* prints every behaviour as a history of public API calls with their arguments  *)
(* and specified results; harness/h_items.c ("script" mode) executes each history *)
(* on the real library and logs the observable state after every call, and       *)
(* Trace_Items compares it with the specification step by step. The behaviours   *)
(* are chosen by the model (including pool reuse, shared sub-items, refusals at  *)
(* capacity, out-of-range indexes), not by the harness's random generator.       *)
EXTENDS MC_Items, Json

VARIABLE hist
svars2 == <<ivars, hist>>

H(name, args, idx, nd) == hist' = Append(hist, [name |-> name, a |-> args, idx |-> idx, ret |-> ret', def |-> nd.def, cap |-> nd.cap, sub |-> nd.sub])
NoNode == [def |-> TRUE, cap |-> 0, sub |-> ""]

(* copying an incomplete tag is outside the contract *)
CopyOK(x) == \A y \in Reach(x) \cup {x} : item[y].t = "tag" => item[y].kids # <<>>
SInit == Init /\ hist = <<>>
SNext ==
  \/ Fresh # 0 /\ \E sub \in {"int", "bstr", "tstr"} : LET n == Node("leaf", sub, TRUE, 0) IN New(Fresh, n) /\ H("NewLeaf", <<>>, 0, n)
  \/ Fresh # 0 /\ \E d \in BOOLEAN : \E c \in 0..(IF d THEN MaxCap ELSE 0) : LET n == Node("arr", "", d, c) IN New(Fresh, n) /\ H("NewArr", <<>>, 0, n)
  \/ Fresh # 0 /\ \E d \in BOOLEAN : \E c \in 0..(IF d THEN 1 ELSE 0) : LET n == Node("map", "", d, c) IN New(Fresh, n) /\ H("NewMap", <<>>, 0, n)
  \/ Fresh # 0 /\ LET n == Node("tag", "", TRUE, 0) IN New(Fresh, n) /\ H("NewTag", <<>>, 0, n)
  \/ Fresh # 0 /\ \E sub \in {"bstr", "tstr"} : LET n == Node("chunked", sub, FALSE, 0) IN New(Fresh, n) /\ H("NewChunked", <<>>, 0, n)
  \/ \E a \in live, x \in live : Push(a, x, NextCap(a)) /\ H("Push", <<a, x>>, 0, NoNode)
  \/ \E a \in live, x \in live : MovePush(a, x, NextCap(a)) /\ H("MovePush", <<a, x>>, 0, NoNode)
  \/ \E a \in live, x \in live, idx \in 0..(MaxCap + 1) : Replace(a, idx, x) /\ H("Replace", <<a, x>>, idx, NoNode)
  \/ \E a \in live, x \in live, idx \in 0..(MaxCap + 1) : Set(a, idx, x, NextCap(a)) /\ H("Set", <<a, x>>, idx, NoNode)
  \/ \E a \in live, idx \in 0..(MaxCap + 1) : Get(a, idx) /\ H("Get", <<a>>, idx, NoNode)
  \/ \E m \in live, k \in live, v \in live : MapAdd(m, k, v, NextCapMap(m)) /\ H("MapAdd", <<m, k, v>>, 0, NoNode)
  \/ \E s \in live, c \in live : AddChunk(s, c, NextCap(s)) /\ H("AddChunk", <<s, c>>, 0, NoNode)
  \/ \E t \in live, x \in live : TagSet(t, x) /\ H("TagSet", <<t, x, IF item[t].kids = <<>> THEN 0 ELSE item[t].kids[1]>>, 0, NoNode)
  \/ \E t \in live : TagGet(t) /\ H("TagGet", <<t>>, 0, NoNode)
  \/ Fresh # 0 /\ \E x \in live : BuildTag(Fresh, x) /\ H("BuildTag", <<x>>, 0, NoNode)
  \/ \E x \in live : Incref(x) /\ H("Incref", <<x>>, 0, NoNode)
  \/ \E x \in live : Decref(x) /\ H("Decref", <<x>>, 0, NoNode)
  \/ \E x \in live : CopyOK(x) /\ Copy(x, FreeSeq, <<>>) /\ H("Copy", <<x>>, 0, NoNode)
SSpec == SInit /\ [][SNext]_svars2

Depth == 14
(* printed once per walk, when it reaches the chosen depth *)
Emit == Len(hist) = Depth => PrintT(<<"HIST", ToJson(hist)>>)
SBound == Bound /\ Len(hist) <= Depth
=============================================================================
