SPECIFICATION Spec
INVARIANT TablesAgree
INVARIANT Trichotomy
INVARIANT FinShape
INVARIANT NeedShape
INVARIANT ErrorShape
INVARIANT PrefixOnly
INVARIANT Monotone
INVARIANT SlotMatchesKind
