SPECIFICATION Spec
CONSTANTS
  NoId = 0
  N = 4
  MaxRef = 2
  MaxCap = 2
  Ops = {"new", "arr", "tag", "copy"}
CONSTRAINT Bound
VIEW NoRet
INVARIANT RcExact
INVARIANT ClientRefsLive
INVARIANT EdgesLive
INVARIANT FreedOnce
INVARIANT NoLeak
INVARIANT SizeWithinCap
INVARIANT Acyclic
INVARIANT GrowthLogarithmic
