---------------------------- MODULE StreamClient ----------------------------
(* The documented incremental client of cbor_stream_decode (data.h:230-258,   *)
(* examples/streaming_parser.c), property C09: bytes arrive in arbitrary       *)
(* fragments; the client buffers them, calls the decoder on what is buffered,  *)
(* advances by `read` on FINISHED and waits until `required` bytes are         *)
(* buffered on NEDATA. The decoder itself is CborWire.StreamDecode; the value  *)
(* it puts into `required` is ANY value the C08 contract allows.               *)
EXTENDS CborWire

VARIABLES stream,        \* the whole byte stream (what will eventually arrive)
          arrived,       \* number of bytes that have arrived
          consumed,      \* offset of the first buffered byte
          waitFor,       \* bytes that must be buffered before the next call (0: call at once)
          events,        \* events delivered so far
          stopped        \* the decoder reported ERROR
svars == <<stream, arrived, consumed, waitFor, events, stopped>>

Buffered == arrived - consumed
Window == SubSeq(stream, consumed + 1, IF arrived < consumed + 10 THEN arrived ELSE consumed + 10)

(* tokenisation by position (no copying of the tail) *)
HeadAt(bytes, i) == SubSeq(bytes, i, IF Len(bytes) < i + 9 THEN Len(bytes) ELSE i + 9)
RECURSIVE TokAt(_, _, _)
TokAt(bytes, i, acc) ==
  IF i > Len(bytes) THEN [evs |-> acc, end |-> "eof", at |-> i - 1]
  ELSE LET r == StreamDecode(HeadAt(bytes, i), Len(bytes) - i + 1) IN
       IF r.st = "fin" THEN TokAt(bytes, i + r.read, Append(acc, [slot |-> r.slot, arg |-> r.arg, n |-> r.read, at |-> i - 1]))
       ELSE [evs |-> acc, end |-> r.st, at |-> i - 1]
Toks(bytes) == TokAt(bytes, 1, <<>>)

SInit(s) == stream = s /\ arrived = 0 /\ consumed = 0 /\ waitFor = 0 /\ events = <<>> /\ stopped = FALSE

Arrive(k) == /\ k >= 1 /\ arrived + k <= Len(stream)
             /\ arrived' = arrived + k
             /\ UNCHANGED <<stream, consumed, waitFor, events, stopped>>

(* one call of the decoder on the buffered window; req: the value the decoder put into `required` on NEDATA *)
Decode(req) ==
  /\ ~stopped /\ Buffered >= waitFor /\ (Buffered > 0 \/ waitFor = 0)
  /\ LET r == StreamDecode(Window, Buffered) IN
     CASE r.st = "fin" ->
            /\ events' = Append(events, [slot |-> r.slot, arg |-> r.arg, n |-> r.read, at |-> consumed])
            /\ consumed' = consumed + r.read /\ waitFor' = 0
            /\ UNCHANGED <<stream, arrived, stopped>>
       [] r.st = "nedata" ->
            /\ RequiredOK(req, Buffered, r.full)            \* strictly more than buffered, never more than the pending item
            /\ waitFor' = (IF Small(req) /\ Val(req) < 1073741824 THEN Val(req) ELSE 1073741824)   \* (beyond 2^30: never reached)
            /\ UNCHANGED <<stream, arrived, consumed, events, stopped>>
       [] OTHER -> stopped' = TRUE /\ UNCHANGED <<stream, arrived, consumed, waitFor, events>>

(* C09 *)
RECURSIVE IsPrefixOf(_, _)
IsPrefixOf(a, b) == Len(a) <= Len(b) /\ \A k \in 1..Len(a) : a[k] = b[k]
EventsArePrefix == IsPrefixOf(events, Toks(stream).evs)              \* same events, same order, nothing lost or duplicated
WaitsAreSatisfiable == waitFor > 0 => \/ consumed + waitFor <= Len(stream)       \* a wait never asks for more than the pending item occupies
                                      \/ Toks(stream).end = "nedata"            \* (unless the stream itself ends inside that item)
                                      \/ consumed = Len(stream)                 \* (or everything was consumed: waiting for the next item)
Delivered == (consumed = Len(stream) /\ Toks(stream).end = "eof") => events = Toks(stream).evs   \* (that it does get there is the liveness property Complete)
=============================================================================
