---------------------------- MODULE Trace_LoadE2E ----------------------------
(* End-to-end judge for cbor_load executions, per property. It does NOT step   *)
(* the stack machine: the logged heads (re-decoded by CborWire from the logged *)
(* window bytes, offsets re-derived) are handed to the declarative grammar,    *)
(* and only the clauses of the property named in VERIF_JUDGE are judged at the *)
(* return. Used to decide which property a divergence found by Trace_Decoder   *)
(* violates, so that a check never reports more than its property states.      *)
EXTENDS CborLoadRef, Json, IOUtils, TLC

TraceLog == ndJsonDeserialize(IOEnv.TRACE)
TraceL == atoi(IOEnv.VERIF_L)
Judge == IOEnv.VERIF_JUDGE          \* "C01" | "C02" | "C05" | "C19" | "all"
J(p) == Judge = p \/ Judge = "all"

VARIABLES l, l0, phase, len, pos, refusals, wireok   \* l0: line of the current execution's "load"
evars == <<l, l0, phase, len, pos, refusals, wireok>>

(* the heads of the current execution, recomputed from the trace lines (kept out of the state so that
   validation stays linear in the length of the execution) *)
EvsNow == [i \in 1..(l - l0 - 1) |-> EventOf(TraceLog[l0 + i].head, TraceLog[l0 + i].rem, TraceLog[l0 + i].pay)]

Ln == TraceLog[l]
IsEvent(e) == l <= Len(TraceLog) /\ TraceLog[l].e = e /\ l' = l + 1

EInit == l = 1 /\ l0 = 0 /\ phase = "idle" /\ len = 0 /\ pos = 0 /\ refusals = 0 /\ wireok = TRUE

EReset == IsEvent("Reset") /\ phase' = "idle" /\ len' = 0 /\ pos' = 0 /\ refusals' = 0 /\ wireok' = TRUE /\ l0' = l0

ELoad == IsEvent("load") /\ phase = "idle" /\ phase' = "run" /\ len' = Ln.len /\ l0' = l /\ UNCHANGED <<pos, refusals, wireok>>

EStep == /\ IsEvent("step") /\ phase = "run"
         /\ LET ln == Ln
                e  == EventOf(ln.head, ln.rem, ln.pay)
                refused == ln.x > 0 \/ (e.st = "fin" /\ e.k \in {"arr", "map"} /\ e.cnt = HugeCnt)
            IN /\ pos' = pos + e.n
               /\ refusals' = IF refused THEN refusals + 1 ELSE refusals
               \* in-bounds, gap-free reading of the caller's buffer (C01): judged at the return
               /\ wireok' = (wireok /\ ln.off = pos /\ ln.rem = len - pos /\ pos + e.n <= len /\ ln.st = e.st)
         /\ UNCHANGED <<phase, len, l0>>

(* TLC re-evaluates an action-level LET definition at every use but evaluates an operator argument once: *)
(* the expensive grammar verdict is therefore passed as an argument.                                     *)
RetJudge(ln, adm, okSet) ==
           /\ J("C01") => /\ ln.shape /\ ln.rets = 1 /\ wireok
                          /\ (ln.ok => ln.post_live = 0) /\ (~ln.ok => ln.live = 0)
           /\ J("C02") => /\ (ln.ok <=> okSet # {})                                  \* accepts exactly the well-formed
                          /\ ln.ok => \E a \in okSet :
                                /\ Eq(ln.read, BE(a.pos, 4))
                                /\ TreeEqJ(ln.tree, a.tree[1])
                                /\ AllRcOne(ln.tree) /\ ln.post_live = 0
           /\ J("C05") => (~ln.ok =>
                             /\ ln.wr = <<TRUE, TRUE, TRUE>> /\ ln.live = 0
                             /\ (okSet = {} =>                                        \* (if it should have been accepted, that is C02's business)
                                   \E a \in adm : a.code = ln.code /\ Eq(ln.pos, BE(a.pos, 4)))
                             /\ Leq(ln.read, BE(len, 4)))
           /\ J("C19") => \* the nesting limit: MEMERROR exactly where level L+1 would open; deeper input never accepted
                          /\ (\E a \in adm : a.code = "mem") => (~ln.ok /\ (refusals = 0 => ln.code \in {a.code : a \in adm}))
                          /\ (ln.ok /\ refusals = 0) => (\E a \in okSet : TreeEqJ(ln.tree, a.tree[1]) /\ Depth(a.tree[1]) <= TraceL)
                          /\ (okSet # {} /\ refusals = 0) => ln.ok            \* input whose nesting never exceeds L is decoded (memory permitting)
                          /\ (refusals = 0 /\ ~ln.ok /\ ln.code = "mem") => (\E a \in adm : a.code = "mem" /\ Eq(ln.pos, BE(a.pos, 4)))

(* Short inputs are logged whole: the verdict is then computed from ALL the bytes (tokenisation + grammar), not only
   from the heads the decoder under test chose to read. *)
WholeInput == TraceLog[l0]["in"]
AdmNow == IF len > 0 /\ refusals = 0 /\ WholeInput # <<>> THEN Admissible(EventsOfBytes(WholeInput), TraceL, TRUE) ELSE
          IF len = 0 THEN {[ok |-> FALSE, code |-> "nodata", pos |-> 0, tree |-> <<>>]}
          ELSE IF refusals > 0 THEN {[ok |-> FALSE, code |-> "mem", pos |-> pos, tree |-> <<>>]}
               \* (a head that is illegal where it stands may be rejected as such before any allocation is attempted:
               \*  e.g. an array head declaring 2^32 entries inside a chunked string, by a decoder that reports eagerly)
               \cup {a \in Admissible(EvsNow, TraceL, pos >= len) : ~a.ok /\ a.code = "syntax" /\ a.pos = pos}
          ELSE Admissible(EvsNow, TraceL, pos >= len)
OkOf(adm) == {a \in adm : a.ok}
RetJudge2(ln, adm) == RetJudge(ln, adm, OkOf(adm))

ERet == /\ IsEvent("ret") /\ phase = "run"
        /\ (Judge = "C01" \/ RetJudge2(Ln, AdmNow))
        /\ (Judge = "C01" => RetJudge(Ln, {}, {}))
        /\ phase' = "done"
        /\ UNCHANGED <<len, pos, refusals, wireok, l0>>

ENext == EReset \/ ELoad \/ EStep \/ ERet
ESpec == EInit /\ [][ENext]_evars
=============================================================================
