#ifndef H_TREE_H
#define H_TREE_H
#include "vh.h"
/* Walk an item tree through public getters and emit it as JSON
 * {"t","w","def","v":[bytes],"items":[...],"rc":n,"cap":n,"cp":n}. Never changes a refcount. */
void vt_tree(FILE* out, const cbor_item_t* item);
/* ,"key":<tree> or ,"key":null */
void vt_ktree(const char* key, const cbor_item_t* item);
/* number of nodes */
size_t vt_nodes(const cbor_item_t* item);
/* collect the addresses of every node and every buffer reachable from item into arr (up to cap); returns count */
size_t vt_addresses(const cbor_item_t* item, const void** arr, size_t cap);
extern int vt_raw; /* 1: read container structure from the item fields instead of through the public getters */
#endif
