/* C17 (and the concurrent-reader complement of C18).
 *   h_threads run <T> <OPS>      T threads, each a seeded workload over the whole API on thread-private data; the same
 *                                workloads are first run alone; one shared tree is read by all threads meanwhile (TSan build)
 *   h_threads globals <OPS>      (shared-library build) after cbor_set_allocs the writable segments of libcbor.so are
 *                                write-protected and the workload is run single-threaded: a store to library-global state faults */
#define _GNU_SOURCE
#include <dlfcn.h>
#include <link.h>
#include <pthread.h>
#include <signal.h>
#include <stdatomic.h>
#include <sys/mman.h>
#include <unistd.h>

#include "cbor.h"
#include <stdio.h>
#include <stdlib.h>
#include <string.h>

/* ---- thread-aware allocator: every block remembers the thread that obtained it ---- */
struct hdr { uint64_t magic; long tid; size_t size; uint64_t pad; };
#define MAGIC 0xC0FFEE0DDF00Dull
static _Thread_local long my_tid;
static _Thread_local int in_handoff; /* working on an item another thread handed over: its blocks legitimately carry that thread's id */
static atomic_long g_allocs, g_frees, g_cross, g_foreign;
static void* t_malloc(size_t n) {
  struct hdr* h = malloc(sizeof *h + n);
  if (!h) return NULL;
  h->magic = MAGIC; h->tid = my_tid; h->size = n;
  atomic_fetch_add(&g_allocs, 1);
  return h + 1;
}
static void t_free(void* p) {
  if (!p) return;
  struct hdr* h = (struct hdr*)p - 1;
  if (h->magic != MAGIC) { atomic_fetch_add(&g_foreign, 1); return; }
  if (h->tid != my_tid && !in_handoff) atomic_fetch_add(&g_cross, 1);
  h->magic = 0;
  atomic_fetch_add(&g_frees, 1);
  free(h);
}
static void* t_realloc(void* p, size_t n) {
  if (!p) return t_malloc(n);
  struct hdr* h = (struct hdr*)p - 1;
  if (h->magic != MAGIC) { atomic_fetch_add(&g_foreign, 1); return NULL; }
  if (h->tid != my_tid && !in_handoff) atomic_fetch_add(&g_cross, 1);
  void* q = t_malloc(n);
  if (!q) return NULL;
  memcpy(q, p, h->size < n ? h->size : n);
  t_free(p);
  return q;
}

/* ---- per-thread deterministic workload ---- */
struct rng { uint64_t s; };
static uint64_t rnd(struct rng* r) { uint64_t z = (r->s += 0x9E3779B97F4A7C15ull); z = (z ^ (z >> 30)) * 0xBF58476D1CE4E5B9ull; z = (z ^ (z >> 27)) * 0x94D049BB133111EBull; return z ^ (z >> 31); }
static uint64_t fnv(uint64_t h, const void* p, size_t n) { const unsigned char* b = p; for (size_t i = 0; i < n; i++) h = (h ^ b[i]) * 1099511628211ull; return h; }

static size_t gen(struct rng* r, unsigned char* b, int depth) {
  switch (rnd(r) % (depth <= 0 ? 9 : 13)) {
    case 9: case 5: if (depth > 0) goto containers; /* fallthrough for leaves */
      b[0] = 0xf9; b[1] = (unsigned char)rnd(r); b[2] = (unsigned char)rnd(r); if ((b[1] & 0x7c) == 0x7c) b[1] &= 0x3f; return 3;       /* half float */
    case 6: if (depth > 0) goto containers; b[0] = 0xfa; for (int i = 0; i < 4; i++) b[1 + i] = (unsigned char)rnd(r); b[1] &= 0x3f; return 5;
    case 7: if (depth > 0) goto containers; { size_t l = rnd(r) % 40; b[0] = 0x58; b[1] = (unsigned char)l; for (size_t i = 0; i < l; i++) b[2 + i] = (unsigned char)rnd(r); return 2 + l; }
    case 8: if (depth > 0) goto containers; b[0] = (unsigned char)(0x20 + rnd(r) % 24); return 1;
    default: break;
  }
  containers:
  switch (rnd(r) % (depth <= 0 ? 5 : 9)) {
    case 0: b[0] = (unsigned char)(rnd(r) % 24); return 1;
    case 1: b[0] = 0x19; b[1] = (unsigned char)rnd(r); b[2] = (unsigned char)rnd(r); return 3;
    case 2: { /* text: ASCII, multi-byte scalars, and ill-formed sequences (code point count 0) */
      static const char* frag[] = {"a", "\xc3\xa9", "\xe2\x82\xac", "\xf0\x9f\x98\x80", "\xff", "\xc3", "\xed\xa0\x80", "z"};
      size_t n = 1, k = rnd(r) % 5;
      for (size_t i = 0; i < k; i++) { const char* f = frag[rnd(r) % 8]; size_t fl = strlen(f); memcpy(b + n, f, fl); n += fl; }
      b[0] = (unsigned char)(0x60 + (n - 1));
      return n;
    }
    case 3: b[0] = 0xfb; for (int i = 0; i < 8; i++) b[1 + i] = (unsigned char)rnd(r); b[1] &= 0x3f; return 9;
    case 4: b[0] = (unsigned char)(0xf4 + rnd(r) % 4); return 1;
    case 5: { size_t c = rnd(r) % 4, n = 1; b[0] = (unsigned char)(0x80 + c); for (size_t i = 0; i < c; i++) n += gen(r, b + n, depth - 1); return n; }
    case 6: { size_t c = rnd(r) % 3, n = 1; b[0] = 0xbf; for (size_t i = 0; i < 2 * c; i++) n += gen(r, b + n, depth - 1); b[n++] = 0xff; return n; }
    case 7: { size_t n = 1; b[0] = 0xc1; n += gen(r, b + n, depth - 1); return n; }
    default: { size_t c = rnd(r) % 3, n = 1; b[0] = 0x5f; for (size_t i = 0; i < c; i++) { b[n++] = 0x42; b[n++] = (unsigned char)rnd(r); b[n++] = (unsigned char)rnd(r); } b[n++] = 0xff; return n; }
  }
}

static FILE* devnull;
static const cbor_item_t* shared_tree;
static uint64_t shared_digest_solo;

static uint64_t read_shared(void) {
  unsigned char out[2048];
  uint64_t h = 1469598103934665603ull;
  size_t n = cbor_serialize(shared_tree, out, sizeof out);
  h = fnv(h, out, n);
  size_t s = cbor_serialized_size(shared_tree);
  h = fnv(h, &s, sizeof s);
  size_t k = cbor_array_size(shared_tree) + cbor_refcount(shared_tree) + cbor_typeof(shared_tree);
  for (size_t i = 0; i < cbor_array_size(shared_tree); i++) k += cbor_typeof(cbor_array_handle(shared_tree)[i]);
  return fnv(h, &k, sizeof k);
}

/* ---- ownership transfer between threads (not sharing): a thread copies one of its items and hands the COPY to a neighbour through
 * an atomic mailbox (release / acquire); it keeps using the original while the neighbour uses, copies and releases the copy. Payloads
 * and chunks of several KiB, so that any size-keyed shortcut in cbor_copy is on the path. ---- */
#define MAXT 64
static _Atomic(cbor_item_t*) mbox[MAXT];
static int n_threads;
static cbor_item_t* big_item(struct rng* r) {
  static const size_t sizes[] = {100, 4095, 4096, 4097, 5000, 9000};
  unsigned char* pay = malloc(9000);
  for (size_t i = 0; i < 9000; i++) pay[i] = (unsigned char)('a' + (i + rnd(r)) % 26);
  cbor_item_t* root = cbor_new_indefinite_array();
  cbor_item_t* bs = cbor_new_indefinite_bytestring();
  cbor_item_t* ts = cbor_new_indefinite_string();
  for (int c = 0; c < 3; c++) {
    cbor_item_t* x = cbor_build_bytestring(pay, sizes[rnd(r) % 6]);
    (void)cbor_bytestring_add_chunk(bs, x); cbor_decref(&x);
    x = cbor_build_stringn((const char*)pay, sizes[rnd(r) % 6]);
    (void)cbor_string_add_chunk(ts, x); cbor_decref(&x);
  }
  cbor_item_t* d = cbor_build_bytestring(pay, sizes[rnd(r) % 6]);
  cbor_item_t* tg = cbor_build_tag(7, d);
  (void)cbor_array_push(root, bs); (void)cbor_array_push(root, ts); (void)cbor_array_push(root, tg);
  cbor_decref(&bs); cbor_decref(&ts); cbor_decref(&d); cbor_decref(&tg);
  free(pay);
  return root;
}
static void use_and_release(cbor_item_t* it) {
  static _Thread_local unsigned char big[1 << 16];
  volatile size_t sink = cbor_serialize(it, big, sizeof big);
  sink += cbor_serialized_size(it);
  cbor_item_t* cp = cbor_copy(it);
  if (cp) { sink += cbor_serialize(cp, big, sizeof big); cbor_decref(&cp); }
  (void)sink;
  cbor_decref(&it);
}
static void handoff_step(struct rng* r) {
  if (n_threads < 2 || my_tid < 1) return;
  /* receive */
  cbor_item_t* got = atomic_exchange_explicit(&mbox[my_tid - 1], NULL, memory_order_acq_rel);
  if (got) { in_handoff = 1; use_and_release(got); in_handoff = 0; }
  /* send a copy, keep the original */
  cbor_item_t* orig = big_item(r);
  cbor_item_t* cp = cbor_copy(orig);
  if (cp) {
    cbor_item_t* old = atomic_exchange_explicit(&mbox[my_tid % n_threads], cp, memory_order_acq_rel);
    if (old) { in_handoff = 1; use_and_release(old); in_handoff = 0; } /* nobody picked it up: ours again */
  }
  use_and_release(orig);
}

static uint64_t workload(uint64_t seed, long ops, int with_shared) {
  struct rng r = {seed};
  uint64_t h = 1469598103934665603ull;
  unsigned char buf[1024], out[2048];
  for (long i = 0; i < ops; i++) {
    size_t n = gen(&r, buf, 3);
    if (rnd(&r) % 5 == 0 && n > 1) n -= 1; /* truncated: error path */
    struct cbor_load_result res;
    cbor_item_t* it = cbor_load(buf, n, &res);
    h = fnv(h, &res.error.code, sizeof res.error.code);
    h = fnv(h, &res.read, sizeof res.read);
    if (it) {
      if (cbor_isa_string(it) && cbor_string_is_definite(it)) { size_t cp = cbor_string_codepoint_count(it); h = fnv(h, &cp, sizeof cp); }
      size_t w = cbor_serialize(it, out, sizeof out);
      h = fnv(h, out, w);
      unsigned char* ab = NULL; size_t abs_ = 0;
      size_t w2 = (i & 1) ? cbor_serialize_alloc(it, &ab, &abs_) : cbor_serialize_alloc(it, &ab, NULL); /* the size output is optional */
      h = fnv(h, ab, w2);
      t_free(ab);
      cbor_item_t* cp = cbor_copy(it);
      if (cp) { size_t w3 = cbor_serialize(cp, out, sizeof out); h = fnv(h, out, w3); cbor_decref(&cp); }
      if (i % 16 == 0) cbor_describe(it, devnull);
      cbor_decref(&it);
    }
    /* construction API */
    cbor_item_t* arr = cbor_new_indefinite_array();
    for (int k = 0; k < (int)(rnd(&r) % 6); k++) { cbor_item_t* x = cbor_build_uint16((uint16_t)rnd(&r)); (void)cbor_array_push(arr, x); cbor_decref(&x); }
    cbor_item_t* tg = cbor_build_tag(rnd(&r) % 100, arr);
    size_t w4 = cbor_serialize(tg, out, sizeof out);
    h = fnv(h, out, w4);
    cbor_decref(&arr);
    cbor_decref(&tg);
    /* now and then: a chain of arrays deeper than the decoder would ever produce, built and released through the API; and an item
     * whose declared payload makes its serialized size overflow (the size function must say 0, here and in every other thread) */
    if (i % 64 == 7) {
      cbor_item_t* top = cbor_build_uint8(1);
      for (int d = 0; d < CBOR_MAX_STACK_SIZE + 40 && top; d++) {
        cbor_item_t* a = cbor_new_definite_array(1);
        if (!a) break;
        (void)cbor_array_push(a, top);
        cbor_decref(&top);
        top = a;
      }
      if (top) cbor_decref(&top);
    }
    if (i % 16 == 5) {
      cbor_item_t* hb = cbor_new_definite_bytestring();
      unsigned char* blk = t_malloc(8);
      memset(blk, 0, 8);
      cbor_bytestring_set_handle(hb, blk, SIZE_MAX - (size_t)(rnd(&r) % 4));
      size_t hs = cbor_serialized_size(hb);
      h = fnv(h, &hs, sizeof hs);
      cbor_bytestring_set_handle(hb, blk, 8);
      cbor_decref(&hb);
    }
    /* streaming decoder, encoders */
    size_t el = cbor_encode_uint(rnd(&r), out, 16);
    h = fnv(h, out, el);
    {
      uint32_t fb = (uint32_t)rnd(&r);
      float ff;
      memcpy(&ff, &fb, 4);
      el = cbor_encode_half(ff, out, 16); h = fnv(h, out, el);
      el = cbor_encode_single(ff, out, 16); h = fnv(h, out, el);
      el = cbor_encode_double((double)ff, out, 16); h = fnv(h, out, el);
      el = cbor_encode_negint(rnd(&r) >> (rnd(&r) % 64), out, 16); h = fnv(h, out, el);
      el = cbor_encode_tag(rnd(&r) >> (rnd(&r) % 64), out, 16); h = fnv(h, out, el);
      el = cbor_encode_map_start(rnd(&r) % 70000, out, 16); h = fnv(h, out, el);
      /* the streaming decoder on its own (callbacks that do nothing), head by head */
      size_t off = 0;
      for (int g = 0; g < 64 && off < n; g++) {
        struct cbor_decoder_result d = cbor_stream_decode(buf + off, n - off, &cbor_empty_callbacks, NULL);
        h = fnv(h, &d.status, sizeof d.status);
        h = fnv(h, &d.read, sizeof d.read);
        if (d.status != CBOR_DECODER_FINISHED) break;
        off += d.read;
      }
      /* text attached through the construction API, containers indexed and replaced */
      static const char* texts[] = {"plain", "\xc3\xa9t\xc3\xa9", "\xe2\x82\xac\xf0\x9f\x98\x80", "bad\xff", "\xed\xa0\x80", ""};
      cbor_item_t* tx = cbor_build_string(texts[rnd(&r) % 6]);
      size_t cpn = cbor_string_codepoint_count(tx);
      h = fnv(h, &cpn, sizeof cpn);
      cbor_item_t* da = cbor_new_definite_array(3);
      (void)cbor_array_push(da, tx); (void)cbor_array_push(da, tx);
      (void)cbor_array_set(da, 2, tx); (void)cbor_array_replace(da, 0, tx);
      cbor_item_t* got = cbor_array_get(da, 1);
      cbor_decref(&got);
      cbor_item_t* mp = cbor_new_definite_map(1);
      (void)cbor_map_add(mp, (struct cbor_pair){.key = tx, .value = da});
      size_t ws = cbor_serialized_size(mp);
      h = fnv(h, &ws, sizeof ws);
      cbor_decref(&mp); cbor_decref(&da); cbor_decref(&tx);
    }
    if (with_shared && shared_tree) { uint64_t s = read_shared(); h = fnv(h, &s, sizeof s); }
    if (with_shared && i % 8 == 3) { struct rng r2 = {seed ^ (uint64_t)i}; handoff_step(&r2); } /* (own generator: the digest stays comparable with the solo run) */
  }
  return h;
}

struct targ { long tid; uint64_t seed; long ops; uint64_t digest; long allocs_before; };
static void* thread_main(void* p) {
  struct targ* a = p;
  my_tid = a->tid;
  a->digest = workload(a->seed, a->ops, 1);
  return NULL;
}

/* ---- write-protect the library's globals ---- */
static uintptr_t seg_lo[8], seg_hi[8];
static int nseg;
static int phdr_cb(struct dl_phdr_info* info, size_t size, void* data) {
  (void)size; (void)data;
  if (!info->dlpi_name || !strstr(info->dlpi_name, "libcbor")) return 0;
  for (int i = 0; i < info->dlpi_phnum; i++) {
    const ElfW(Phdr)* ph = &info->dlpi_phdr[i];
    if (ph->p_type == PT_LOAD && (ph->p_flags & PF_W) && nseg < 8) {
      uintptr_t lo = (info->dlpi_addr + ph->p_vaddr) & ~(uintptr_t)4095;
      uintptr_t hi = (info->dlpi_addr + ph->p_vaddr + ph->p_memsz + 4095) & ~(uintptr_t)4095;
      seg_lo[nseg] = lo; seg_hi[nseg] = hi; nseg++;
    }
  }
  return 0;
}
static volatile int gfaults;
static char gsym[256];
static void on_segv(int sig, siginfo_t* si, void* uc) {
  (void)sig; (void)uc;
  uintptr_t a = (uintptr_t)si->si_addr;
  for (int i = 0; i < nseg; i++)
    if (a >= seg_lo[i] && a < seg_hi[i]) {
      gfaults++;
      Dl_info di;
      if (dladdr(si->si_addr, &di) && di.dli_sname) snprintf(gsym, sizeof gsym, "%s", di.dli_sname);
      else snprintf(gsym, sizeof gsym, "libcbor+0x%lx", (unsigned long)(a - seg_lo[0]));
      mprotect((void*)seg_lo[i], seg_hi[i] - seg_lo[i], PROT_READ | PROT_WRITE);
      return;
    }
  static const char msg[] = "\nCURRENT-CASE signal idx=0 fault outside libcbor data\n";
  if (write(2, msg, sizeof msg - 1) < 0) {}
  _exit(78);
}

int main(int argc, char** argv) {
  if (argc < 3) return 2;
  devnull = fopen("/dev/null", "w");
  my_tid = 0;
  cbor_set_allocs(t_malloc, t_realloc, t_free); /* once, before any thread or item exists */
  if (!strcmp(argv[1], "globals")) {
    long ops = atol(argv[2]);
    dl_iterate_phdr(phdr_cb, NULL);
    struct sigaction sa;
    memset(&sa, 0, sizeof sa);
    sa.sa_sigaction = on_segv;
    sa.sa_flags = SA_SIGINFO;
    sigaction(SIGSEGV, &sa, NULL);
    size_t bytes = 0;
    for (int i = 0; i < nseg; i++) { bytes += seg_hi[i] - seg_lo[i]; if (mprotect((void*)seg_lo[i], seg_hi[i] - seg_lo[i], PROT_READ)) return 3; }
    uint64_t d = workload(42, ops, 0);
    int f1 = gfaults;
    /* device self-test: re-installing the allocators IS a store to the library's globals and must fault */
    for (int i = 0; i < nseg; i++) mprotect((void*)seg_lo[i], seg_hi[i] - seg_lo[i], PROT_READ);
    cbor_set_allocs(t_malloc, t_realloc, t_free);
    int selftest = gfaults > f1;
    for (int i = 0; i < nseg; i++) mprotect((void*)seg_lo[i], seg_hi[i] - seg_lo[i], PROT_READ | PROT_WRITE);
    printf("{\"e\":\"globals\",\"segments\":%d,\"bytes\":%zu,\"faults\":%d,\"symbol\":\"%s\",\"selftest\":%s,\"ops\":%ld,\"digest\":%llu,\"live\":%ld,\"foreign\":%ld}\n", nseg, bytes, f1,
           f1 ? gsym : "", selftest ? "true" : "false", ops, (unsigned long long)(d & 0xffffff), atomic_load(&g_allocs) - atomic_load(&g_frees), atomic_load(&g_foreign));
    fflush(stdout);
    _exit(0); /* (exit handlers of the library write to its .bss) */
  }
  int T = atoi(argv[2]);
  long ops = atol(argv[3]);
  uint64_t base = strtoull(getenv("VERIF_SEED") ? getenv("VERIF_SEED") : "0", NULL, 10) * 1000003ull + 17;
  /* the shared tree, built by the main thread before the workers exist */
  cbor_item_t* sh = cbor_new_indefinite_array();
  for (int i = 0; i < 6; i++) {
    cbor_item_t* x = i % 3 == 0 ? cbor_build_tag(i, cbor_move(cbor_build_string("tagged"))) : i % 3 == 1 ? cbor_build_uint32(i * 1000) : cbor_build_bytestring((const unsigned char*)"abc", 3);
    (void)cbor_array_push(sh, x);
    cbor_decref(&x);
  }
  shared_tree = sh;
  shared_digest_solo = read_shared();
  /* each workload alone (single-threaded reference) */
  static struct targ a[64];
  static uint64_t solo[64];
  for (int t = 0; t < T; t++) { my_tid = t + 1; solo[t] = workload(base + t, ops, 1); }
  my_tid = 0;
  long allocs0 = atomic_load(&g_allocs), frees0 = atomic_load(&g_frees);
  pthread_t th[64];
  n_threads = T;
  for (int t = 0; t < T; t++) { a[t] = (struct targ){.tid = t + 1, .seed = base + t, .ops = ops}; pthread_create(&th[t], NULL, thread_main, &a[t]); }
  for (int t = 0; t < T; t++) pthread_join(th[t], NULL);
  for (int t = 0; t < T; t++) { cbor_item_t* left = atomic_exchange(&mbox[t], NULL); if (left) { in_handoff = 1; cbor_decref(&left); in_handoff = 0; } }
  for (int t = 0; t < T; t++)
    printf("{\"e\":\"thread\",\"tid\":%d,\"threads\":%d,\"ops\":%ld,\"same\":%s,\"digest\":%llu}\n", t + 1, T, ops, a[t].digest == solo[t] ? "true" : "false",
           (unsigned long long)(a[t].digest & 0xffffff));
  printf("{\"e\":\"join\",\"threads\":%d,\"allocs\":%ld,\"frees\":%ld,\"cross\":%ld,\"foreign\":%ld,\"shared_same\":%s}\n", T, atomic_load(&g_allocs) - allocs0,
         atomic_load(&g_frees) - frees0, atomic_load(&g_cross), atomic_load(&g_foreign), read_shared() == shared_digest_solo ? "true" : "false");
  cbor_decref(&sh);
  return 0;
}
