/* Recorder for the tree decoder (C01, C02, C05, C14, C19): runs cbor_load on exactly-sized heap copies of
 * inputs with the LIBCBOR_VERIF hook installed, logs one ndjson line per loop iteration and one per
 * return, then exercises the returned tree (describe, size, serialize, copy, release).
 *
 * usage: h_load [--dedup] [--skip N] [--noops] <mode> ...
 *   dfs N [all]      every token string the decoder keeps reading, up to N tokens (concretised heads)
 *   bytes K          every byte string of length 1..K
 *   bytes3 K lo hi   byte strings of length K whose first byte is in lo..hi (for parallel sweeps)
 *   hex FILE         one hex-encoded input per line ('-' = stdin)
 *   rand COUNT       seeded random well-formed items and single-edit neighbours
 *   nest             nesting families around CBOR_MAX_STACK_SIZE (C19)
 */
#include <signal.h>
#include <sys/time.h>
#include <unistd.h>

#include "cbor/internal/verif_hooks.h"
#include "h_gen.h"
#include "h_tree.h"

static int opt_dedup, opt_noops, opt_suffix, opt_lean, opt_faults, opt_libc, opt_nodesc;
static long last_load_requests; /* allocator requests made by the most recent cbor_load */
static int in_fault_run;
static long opt_stack_kb;
static long opt_skip = -1, input_index = 0, executed = 0, emitted = 0;
static const unsigned char* cur_in;
static size_t cur_len;
static FILE* devnull;

static void dump_current(const char* why) {
  char buf[64];
  int n = snprintf(buf, sizeof buf, "\nCURRENT-INPUT %s idx=%ld hex=", why, input_index);
  if (write(2, buf, n) < 0) {}
  for (size_t i = 0; i < cur_len && i < 600; i++) {
    static const char hx[] = "0123456789abcdef";
    char c[2] = {hx[cur_in[i] >> 4], hx[cur_in[i] & 15]};
    if (write(2, c, 2) < 0) {}
  }
  if (write(2, "\n", 1) < 0) {}
}
static void on_death(void) { dump_current("sanitizer"); fflush(stdout); }
/* watchdog: 10 s of CPU time of this process (a genuine non-terminating loop burns CPU; a descheduled process does not),
 * backed by 300 s of wall time */
static void watchdog(int on) {
  struct itimerval it = {{0, 0}, {on ? 10 : 0, 0}};
  setitimer(ITIMER_PROF, &it, NULL);
  alarm(on ? 300 : 0);
}
static void on_signal(int sig) {
  int hang = sig == SIGALRM || sig == SIGPROF;
  dump_current(hang ? "hang" : sig == SIGABRT ? "abort" : "signal");
  fflush(stdout);
  _exit(hang ? 77 : 78);
}
#if defined(__has_feature)
#if __has_feature(address_sanitizer)
void __sanitizer_set_death_callback(void (*)(void));
#define HAVE_SAN 1
#endif
#endif

/* ------------------------------------------------------------------ hook: one line per iteration */
static FILE* tr;          /* trace sink of the current load (memstream) */
static FILE* pj;          /* projection sink (dedup key) */
static long last_refused;
static int ret_events;

static void project_top(const struct _cbor_stack* st, const char** t, int* def, size_t* n) {
  *t = "none"; *def = 1; *n = 0;
  if (!st || st->size == 0) return;
  const cbor_item_t* it = st->top->item;
  switch (cbor_typeof(it)) {
    case CBOR_TYPE_ARRAY: *t = "arr"; *def = cbor_array_is_definite(it); *n = cbor_array_size(it); break;
    case CBOR_TYPE_MAP: {
      *t = "map"; *def = cbor_map_is_definite(it);
      size_t s = cbor_map_size(it);
      *n = 2 * s - ((s > 0 && cbor_map_handle(it)[s - 1].value == NULL) ? 1 : 0);
      break;
    }
    case CBOR_TYPE_TAG: *t = "tag"; break;
    case CBOR_TYPE_BYTESTRING: *t = "bstr"; *def = cbor_bytestring_is_definite(it); *n = *def ? 0 : cbor_bytestring_chunk_count(it); break;
    case CBOR_TYPE_STRING: *t = "tstr"; *def = cbor_string_is_definite(it); *n = *def ? 0 : cbor_string_chunk_count(it); break;
    default: *t = "other"; break;
  }
}

static void hook(const struct cbor_verif_load_event* ev) {
  if (ev->kind == CBOR_VERIF_LOAD_RETURN_EVENT) {
    ret_events++;
    return;
  }
  const struct cbor_decoder_result* r = ev->decode_result;
  size_t rem = ev->source_size - ev->offset;
  const unsigned char* w = ev->source + ev->offset;
  size_t hl = rem < 9 ? rem : 9;
  fprintf(tr, "{\"e\":\"step\",\"off\":%zu,\"rem\":%zu,\"head\":[", ev->offset, rem);
  for (size_t i = 0; i < hl; i++) fprintf(tr, i ? ",%u" : "%u", w[i]);
  const char* st = r->status == CBOR_DECODER_FINISHED ? "fin" : r->status == CBOR_DECODER_NEDATA ? "nedata" : "error";
  fprintf(tr, "],\"st\":\"%s\",\"read\":%zu", st, r->read);
  /* payload of a definite string head */
  unsigned b0 = w[0], mt = b0 >> 5, ai = b0 & 31;
  int argw = ai < 24 ? 0 : ai == 24 ? 1 : ai == 25 ? 2 : ai == 26 ? 4 : ai == 27 ? 8 : 0;
  fputs(",\"pay\":[", tr);
  size_t paylen = 0;
  if (r->status == CBOR_DECODER_FINISHED && (mt == 2 || mt == 3) && ai < 28 && r->read <= rem) {
    paylen = r->read - 1 - argw;
    for (size_t i = 0; i < paylen; i++) fprintf(tr, i ? ",%u" : "%u", w[1 + argw + i]);
  }
  const char* tt; int def; size_t n;
  project_top(ev->stack, &tt, &def, &n);
  long x = va.refused - last_refused;
  last_refused = va.refused;
  fprintf(tr, "],\"depth\":%zu,\"top\":{\"t\":\"%s\",\"def\":%s,\"n\":%zu},\"cf\":%s,\"se\":%s,\"x\":%ld}\n", ev->stack->size, tt,
          def ? "true" : "false", n, ev->context->creation_failed ? "true" : "false", ev->context->syntax_error ? "true" : "false", x);
  if (pj) {
    /* projection: everything the specification's control flow reads; scalar values and string contents masked */
    int strk = (mt == 2 || mt == 3) && ai < 28;
    int cntk = (mt == 4 || mt == 5) && ai < 28;
    fprintf(pj, "%u/%zu/%s/%zu/%zu/%s%d%zu/%d%d%ld|", b0, rem < 12 ? rem : 12, st, r->read < 64 ? r->read : 64 + (r->read & 1), ev->stack->size, tt, def,
            n < 6 ? n : 6, ev->context->creation_failed, ev->context->syntax_error, x);
    if (cntk || strk)
      for (int i = 0; i < argw && (size_t)(1 + i) < rem; i++) fprintf(pj, "%u,", w[1 + i]);
  }
}

/* ------------------------------------------------------------------ dedup set */
static uint64_t* seen;
static size_t seen_cap, seen_n;
static int seen_add(uint64_t h) {
  if (!h) h = 1;
  if (seen_n * 2 >= seen_cap) {
    size_t oc = seen_cap;
    uint64_t* o = seen;
    seen_cap = oc ? oc * 2 : (1u << 16);
    seen = calloc(seen_cap, 8);
    seen_n = 0;
    for (size_t i = 0; i < oc; i++)
      if (o[i]) seen_add(o[i]);
    free(o);
  }
  for (size_t i = (size_t)(h * 0x9E3779B97F4A7C15ull) & (seen_cap - 1);; i = (i + 1) & (seen_cap - 1)) {
    if (seen[i] == h) return 0;
    if (!seen[i]) {
      seen[i] = h;
      seen_n++;
      return 1;
    }
  }
}
static uint64_t fnv(const char* s, size_t n) {
  uint64_t h = 1469598103934665603ull;
  for (size_t i = 0; i < n; i++) h = (h ^ (unsigned char)s[i]) * 1099511628211ull;
  return h;
}

/* ------------------------------------------------------------------ one load */
static const char* code_name(int c) {
  switch (c) {
    case CBOR_ERR_NONE: return "none";
    case CBOR_ERR_NOTENOUGHDATA: return "nedata";
    case CBOR_ERR_NODATA: return "nodata";
    case CBOR_ERR_MALFORMATED: return "malformed";
    case CBOR_ERR_MEMERROR: return "mem";
    case CBOR_ERR_SYNTAXERROR: return "syntax";
    default: return "invalid";
  }
}

static long shape_failures;


/* lean mode (huge exhaustive sweeps): no trace, only the outcome shape, the follow-up operations and the
 * environment (sanitizers, watchdog, exact-size block) */
/* lean mode, inputs whose outcome is known by construction (nesting families, shallow big items): 1 = must be accepted, 2 = must be
 * refused with MEMERROR (nesting beyond the limit), 0 = unknown. Anchored by the TLC-judged runs of the same families at small L. */
static int lean_expect;
static void lean_load(const unsigned char* in, size_t len) {
  unsigned char* blk;
  unsigned char* src = vh_exact_rot(len, &blk);
  memcpy(src, in, len);
  struct cbor_load_result res;
  memset(&res, 0xAB, sizeof res);
  long live0 = va.live, refused0 = va.refused;
  cbor_item_t* item = cbor_load(src, len, &res);
  free(blk);
  int ok = item ? (res.error.code == CBOR_ERR_NONE && res.read >= 1 && res.read <= len)
                : (res.error.code != CBOR_ERR_NONE && res.error.code <= CBOR_ERR_SYNTAXERROR && va.live == live0 && res.error.position <= len);
  if (lean_expect == 1 && va.refused == refused0 && !(item && res.read == len)) ok = 0; /* (memory permitting) */
  if (lean_expect == 2 && !(item == NULL && res.error.code == CBOR_ERR_MEMERROR)) ok = 0;
  if (item) {
    if (!opt_noops) {
      if (!opt_nodesc) cbor_describe(item, devnull); /* (its output is quadratic in the depth - 4 spaces per level per line: minutes at depth 65536) */
      size_t ss = cbor_serialized_size(item);
      unsigned char* sb = NULL;
      size_t sbs = 0;
      size_t w = cbor_serialize_alloc(item, &sb, &sbs);
      if (w != ss || ss == 0 || ss > len + 16) ok = 0;
      if (sb) va_free(sb);
      cbor_item_t* cp = cbor_copy(item);
      if (!cp) ok = 0; else cbor_decref(&cp);
    }
    cbor_decref(&item);
    if (item != NULL || va.live != live0) ok = 0;
  }
  if (!ok) {
    shape_failures++;
    fputs("{\"e\":\"shapefail\",\"in\":", vh_out);
    vh_bytes(in, len);
    fputs("}\n", vh_out);
  }
}

static void one_load_core(const unsigned char* in, size_t len) {
  input_index++;
  if (input_index <= opt_skip) return;
  executed++;
  cur_in = in;
  cur_len = len;
  if (opt_lean) {
    watchdog(1);
    lean_load(in, len);
    watchdog(0);
    return;
  }
  char *trbuf = NULL, *pjbuf = NULL;
  size_t trlen = 0, pjlen = 0;
  tr = open_memstream(&trbuf, &trlen);
  pj = opt_dedup ? open_memstream(&pjbuf, &pjlen) : NULL;
  unsigned char* blk;
  unsigned char* src = vh_exact_rot(len, &blk);
  memcpy(src, in, len);
  struct cbor_load_result res;
  memset(&res, 0xAB, sizeof res);
  long live0 = va.live;
  last_refused = va.refused;
  ret_events = 0;
  watchdog(1);
  /* short inputs are logged whole, so that the end-to-end judge does not depend on how far the decoder chose to read */
  fprintf(tr, "{\"e\":\"load\",\"len\":%zu,\"L\":%d,\"in\":[", len, CBOR_MAX_STACK_SIZE);
  if (len <= 1500) for (size_t i = 0; i < len; i++) fprintf(tr, i ? ",%u" : "%u", in[i]);
  fputs("]}\n", tr);
  long req0 = va.requests;
  cbor_item_t* item = cbor_load(src, len, &res);
  last_load_requests = va.requests - req0;
  va_fault_mode = VA_NONE; /* a scheduled refusal applies to the load only */
  /* the input may be overwritten and released at once: nothing in the tree may refer to it */
  if (len) memset(src, 0xEE, len);
  free(blk);
  long live1 = va.live - live0;
  struct cbor_load_result sent;
  memset(&sent, 0xAB, sizeof sent);
  fprintf(tr, "{\"e\":\"ret\",\"ok\":%s,\"code\":\"%s\",\"pos\":", item ? "true" : "false", code_name(res.error.code));
  FILE* save = vh_out;
  vh_out = tr;
  vh_u64(res.error.position);
  fputs(",\"read\":", tr);
  vh_u64(res.read);
  fprintf(tr, ",\"wr\":[%s,%s,%s]", memcmp(&res.error.code, &sent.error.code, sizeof res.error.code) ? "true" : "false",
          memcmp(&res.error.position, &sent.error.position, sizeof res.error.position) ? "true" : "false",
          memcmp(&res.read, &sent.read, sizeof res.read) ? "true" : "false");
  fprintf(tr, ",\"live\":%ld,\"rets\":%d", live1, ret_events);
  vt_ktree("tree", item);
  /* outcome shape, judged here as well so that the dedup'ed sweeps keep this check for every input */
  int shape_ok = item ? (res.error.code == CBOR_ERR_NONE && res.read >= 1 && res.read <= len)
                      : (res.error.code != CBOR_ERR_NONE && live1 == 0);
  long post_live = 0;
  size_t ssize = 0, swritten = 0, nodes = 0;
  int copy_ok = -1;
  if (item) {
    nodes = vt_nodes(item);
    if (!opt_noops) {
      cbor_describe(item, devnull);
      ssize = cbor_serialized_size(item);
      unsigned char* sbuf = NULL;
      size_t sbuf_size = 0;
      swritten = cbor_serialize_alloc(item, &sbuf, &sbuf_size);
      fputs(",\"ser\":", tr);
      vh_bytes(sbuf ? sbuf : (const unsigned char*)"", sbuf ? swritten : 0);
      if (sbuf) va_free(sbuf);
      cbor_item_t* cp = cbor_copy(item);
      copy_ok = cp != NULL;
      if (cp) {
        vt_ktree("copy", cp);
        cbor_decref(&cp);
        if (cp != NULL) shape_ok = 0;
      }
    }
    cbor_decref(&item);
    if (item != NULL) shape_ok = 0; /* sole owner: the last decref must release and null the pointer */
    post_live = va.live - live0;
    if (post_live != 0) shape_ok = 0;
  }
  vh_out = save;
  fprintf(tr, ",\"nodes\":%zu,\"ssize\":%zu,\"swritten\":%zu,\"copied\":%d,\"post_live\":%ld,\"shape\":%s}\n", nodes, ssize, swritten, copy_ok,
          post_live, shape_ok ? "true" : "false");
  watchdog(0);
  fclose(tr);
  int emit = 1;
  if (pj) {
    fprintf(pj, "#%s/%zu/%d", code_name(res.error.code), len < 12 ? len : 12, shape_ok);
    fclose(pj);
    emit = seen_add(fnv(pjbuf, pjlen)) || !shape_ok;
    free(pjbuf);
  }
  if (!shape_ok) shape_failures++;
  if (emit) {
    fputs("{\"e\":\"Reset\"}\n", vh_out);
    fwrite(trbuf, 1, trlen, vh_out);
    emitted++;
  }
  free(trbuf);
}

/* one input: the plain load, and (--faults K) the same load again with request k = 0..min(N,K)-1 refused, N being the
 * number of allocator requests the fault-free load made (C05: MEMERROR just past the head whose allocation was refused,
 * nothing left allocated) */
static void one_load(const unsigned char* in, size_t len) {
  one_load_core(in, len);
  if (!opt_faults || opt_lean || input_index <= opt_skip) return;
  long n = last_load_requests;
  if (n > opt_faults) n = opt_faults;
  for (long k = 0; k < n; k++) {
    va_fault_mode = VA_ONLY;
    va_fault_k = va.requests + k;
    in_fault_run = 1;
    one_load_core(in, len);
    in_fault_run = 0;
    va_fault_mode = VA_NONE;
  }
}

/* ------------------------------------------------------------------ generators */
struct variant { unsigned char b[12]; int n; };
#define V(...) {{__VA_ARGS__}, (int)sizeof((unsigned char[]){__VA_ARGS__})}
struct tclass { const char* name; int nv; struct variant v[28]; int last_only; };
static struct tclass classes[] = {
    {"S", 24, {V(0x00), V(0x17), V(0x18, 0x18), V(0x18, 0xff), V(0x19, 0x01, 0x00), V(0x1a, 0x00, 0x01, 0x00, 0x00),
               V(0x1b, 0, 0, 0, 1, 0, 0, 0, 0), V(0x20), V(0x37), V(0x38, 0x18), V(0x39, 0xff, 0xff), V(0x3a, 0xff, 0xff, 0xff, 0xff),
               V(0x3b, 0xff, 0xff, 0xff, 0xff, 0xff, 0xff, 0xff, 0xff), V(0xf4), V(0xf5), V(0xf6), V(0xf7), V(0xf9, 0x3c, 0x00),
               V(0xf9, 0x7e, 0x00), V(0xfa, 0x3f, 0x80, 0x00, 0x00), V(0xfb, 0x3f, 0xf0, 0, 0, 0, 0, 0, 0), V(0x18, 0x00), V(0x19, 0x00, 0x00),
               V(0xfa, 0x7f, 0xc0, 0x00, 0x01)}, 0},
    {"B", 8, {V(0x40), V(0x41, 0xaa), V(0x42, 0x01, 0x02), V(0x58, 0x01, 0xbb), V(0x58, 0x00), V(0x59, 0x00, 0x02, 0xcc, 0xdd),
              V(0x5a, 0, 0, 0, 1, 0xee), V(0x5b, 0, 0, 0, 0, 0, 0, 0, 1, 0xff)}, 0},
    {"T", 8, {V(0x60), V(0x61, 0x61), V(0x62, 0xc3, 0xa9), V(0x78, 0x01, 0x62), V(0x61, 0xff), V(0x79, 0x00, 0x01, 0x63),
              V(0x7a, 0, 0, 0, 2, 0xc3, 0xa9), V(0x63, 0xe2, 0x82, 0xac)}, 0},
    {"BS", 1, {V(0x5f)}, 0},
    {"TS", 1, {V(0x7f)}, 0},
    {"A0", 5, {V(0x80), V(0x98, 0x00), V(0x99, 0x00, 0x00), V(0x9a, 0, 0, 0, 0), V(0x9b, 0, 0, 0, 0, 0, 0, 0, 0)}, 0},
    {"A1", 5, {V(0x81), V(0x98, 0x01), V(0x99, 0x00, 0x01), V(0x9a, 0, 0, 0, 1), V(0x9b, 0, 0, 0, 0, 0, 0, 0, 1)}, 0},
    {"A2", 4, {V(0x82), V(0x98, 0x02), V(0x99, 0x00, 0x02), V(0x9a, 0, 0, 0, 2)}, 0},
    {"AS", 1, {V(0x9f)}, 0},
    {"M0", 4, {V(0xa0), V(0xb8, 0x00), V(0xb9, 0x00, 0x00), V(0xbb, 0, 0, 0, 0, 0, 0, 0, 0)}, 0},
    {"M1", 4, {V(0xa1), V(0xb8, 0x01), V(0xb9, 0x00, 0x01), V(0xba, 0, 0, 0, 1)}, 0},
    {"MS", 1, {V(0xbf)}, 0},
    {"G", 6, {V(0xc0), V(0xd7), V(0xd8, 0x18), V(0xd9, 0x01, 0x00), V(0xda, 0, 1, 0, 0), V(0xdb, 0xff, 0xff, 0xff, 0xff, 0xff, 0xff, 0xff, 0xff)}, 0},
    {"BRK", 1, {V(0xff)}, 0},
    {"RSV", 16, {V(0x1c), V(0x1f), V(0x3c), V(0x3f), V(0x5c), V(0x7e), V(0x9c), V(0xbc), V(0xdc), V(0xdf), V(0xe0), V(0xf3), V(0xf8), V(0xfc),
                 V(0xfe), V(0xf8, 0x20)}, 0},
    {"HUGE", 8, {V(0x9b, 0, 0, 0, 1, 0, 0, 0, 0), V(0x9b, 0x20, 0, 0, 0, 0, 0, 0, 0), V(0x9b, 0xff, 0xff, 0xff, 0xff, 0xff, 0xff, 0xff, 0xff),
                 V(0xbb, 0xff, 0xff, 0xff, 0xff, 0xff, 0xff, 0xff, 0xff), V(0x9a, 0xff, 0xff, 0xff, 0xff), V(0xbb, 0x10, 0, 0, 0, 0, 0, 0, 0),
                 V(0xba, 0x40, 0, 0, 0), V(0x9b, 0x1f, 0xff, 0xff, 0xff, 0xff, 0xff, 0xff, 0xff)}, 0},
    {"CUT", 20, {V(0x18), V(0x19, 0x00), V(0x1a, 0x00, 0x00), V(0x1b, 0x00), V(0x41), V(0x42, 0x01), V(0x58), V(0x59, 0x00), V(0x61), V(0x78),
                 V(0x98), V(0x99, 0x00), V(0xb8), V(0xd8), V(0xf9, 0x00), V(0xfa, 0, 0, 0), V(0xfb), V(0x5b, 0, 0, 0, 0, 0, 0, 0),
                 V(0x5b, 0xff, 0xff, 0xff, 0xff, 0xff, 0xff, 0xff, 0xff), V(0x7b, 0, 0, 0, 1, 0, 0, 0, 0, 0x61)}, 1},
};
#define NCLASS ((int)(sizeof classes / sizeof *classes))
static unsigned long vcounter;

/* structural tracker over token classes, used ONLY to decide which prefixes to extend (never to judge): a prefix is
 * extended when the real decoder OR this tracker says more input is awaited, so that a decoder that wrongly gives up on a
 * prefix is still asked about its extensions */
struct rframe { int kind; long rem; }; /* kind: 0 definite (rem items left), 1 indef array, 2 indef map (rem = parity), 3 chunked bytes, 4 chunked text */
static int ref_live(const int* toks, int n) {
  struct rframe st[64];
  int sp = 0;
  for (int i = 0; i < n; i++) {
    const char* t = classes[toks[i]].name;
    int complete = 0;
    if (!strcmp(t, "RSV") || !strcmp(t, "CUT") || !strcmp(t, "HUGE")) return 0;
    if (!strcmp(t, "BRK")) {
      if (sp == 0 || st[sp - 1].kind == 0 || (st[sp - 1].kind == 2 && st[sp - 1].rem)) return 0;
      sp--; complete = 1;
    } else if (sp > 0 && st[sp - 1].kind >= 3) {
      if ((st[sp - 1].kind == 3 && !strcmp(t, "B")) || (st[sp - 1].kind == 4 && !strcmp(t, "T"))) continue;
      return 0;
    } else if (!strcmp(t, "S") || !strcmp(t, "B") || !strcmp(t, "T") || !strcmp(t, "A0") || !strcmp(t, "M0")) complete = 1;
    else {
      if (sp >= 60) return 0;
      if (!strcmp(t, "A1")) st[sp++] = (struct rframe){0, 1};
      else if (!strcmp(t, "A2")) st[sp++] = (struct rframe){0, 2};
      else if (!strcmp(t, "M1")) st[sp++] = (struct rframe){0, 2};
      else if (!strcmp(t, "G")) st[sp++] = (struct rframe){0, 1};
      else if (!strcmp(t, "AS")) st[sp++] = (struct rframe){1, 0};
      else if (!strcmp(t, "MS")) st[sp++] = (struct rframe){2, 0};
      else if (!strcmp(t, "BS")) st[sp++] = (struct rframe){3, 0};
      else st[sp++] = (struct rframe){4, 0};
    }
    while (complete) {
      complete = 0;
      if (sp == 0) return 0; /* a complete top-level item: nothing more is awaited */
      struct rframe* f = &st[sp - 1];
      if (f->kind == 0) { if (--f->rem == 0) { sp--; complete = 1; } }
      else if (f->kind == 2) f->rem ^= 1;
      else if (f->kind >= 3) return 0;
    }
  }
  return 1;
}
static int dfs_toks[16];

static void dfs(unsigned char* buf, size_t len, int depth, int maxdepth, int all) {
  for (int c = 0; c < NCLASS; c++) {
    int nv = all ? classes[c].nv : 1;
    for (int k = 0; k < nv; k++) {
      struct variant* v = all ? &classes[c].v[k] : &classes[c].v[(vcounter++ * 7 + depth) % classes[c].nv];
      memcpy(buf + len, v->b, v->n);
      size_t nl = len + v->n;
      dfs_toks[depth] = c;
      /* probe: does the decoder ask for more input here? (uses the real decoder only to prune) */
      one_load(buf, nl);
      if (depth + 1 < maxdepth && !classes[c].last_only) {
        int want_more = 0;
        if (input_index != opt_skip) { /* (the input a previous run ended abnormally on is not probed again) */
          struct cbor_load_result r;
          cur_in = buf; cur_len = nl;
          cbor_verif_load_hook = NULL;
          cbor_item_t* it = cbor_load(buf, nl, &r);
          cbor_verif_load_hook = opt_lean ? NULL : hook;
          want_more = !it && r.error.code == CBOR_ERR_NOTENOUGHDATA && r.error.position == nl;
          if (it) cbor_decref(&it);
        }
        if (want_more || ref_live(dfs_toks, depth + 1)) dfs(buf, nl, depth + 1, maxdepth, all);
      }
    }
  }
}

#define gen_item vg_encoding

static void mutate_and_load(unsigned char* b, size_t n) {
  static unsigned char m[1 << 18];
  static const unsigned char rsv[] = {0x1c, 0x1f, 0x3d, 0x5e, 0x7c, 0x9d, 0xbe, 0xdd, 0xe0, 0xf8, 0xfc, 0xff, 0x5f, 0x7f, 0x9f, 0xbf, 0xc1};
  one_load(b, n);
  int muts = 6;
  for (int i = 0; i < muts && n > 0; i++) {
    size_t p = vh_randn(n);
    size_t mn = n;
    memcpy(m, b, n);
    switch (vh_randn(6)) {
      case 0: mn = p; break;                                            /* truncate */
      case 1: m[p] = rsv[vh_randn(sizeof rsv)]; break;                  /* overwrite with reserved / structural byte */
      case 2: memmove(m + p + 1, m + p, n - p); m[p] = 0xff; mn = n + 1; break; /* insert break */
      case 3: memmove(m + p, m + p + 1, n - p - 1); mn = n - 1; break;  /* delete a byte */
      case 4: m[p] = (unsigned char)(m[p] + 1); break;                  /* inflate */
      default: m[p] ^= (unsigned char)(1u << vh_randn(8)); break;       /* bit flip */
    }
    one_load(m, mn);
  }
  /* suffix independence (C14): x followed by junk */
  if (opt_suffix) {
    memcpy(m, b, n);
    m[n] = (unsigned char)vh_rand();
    one_load(m, n + 1);
    size_t e = gen_item(m + n, sizeof m - n - 1, 1);
    one_load(m, n + e);
  }
}

static void nest_family(int Lim, unsigned mask) {
  /* every container kind, nested to depths L-1, L, L+1, 4L, innermost a scalar / a chunked string */
  static const unsigned char open1[][2] = {{0x81, 0}, {0x9f, 0}, {0xc1, 0}, {0xa1, 1}, {0xbf, 1}, {0xa1, 2}, {0xbf, 2}};
  /* kind 1 = map, container in value position (key 00 first); kind 2 = map, container in key position (value 00 after) */
  int depths[] = {Lim - 1, Lim, Lim + 1, 4 * Lim, 1, 2};
  for (unsigned oi = 0; oi < 7 + 1; oi++) {
    if (!(mask >> oi & 1)) continue;
    for (unsigned di = 0; di < 6; di++) {
      int d = depths[di];
      if (d < 0) continue;
      for (int inner = 0; inner < 3; inner++) {
        size_t cap = (size_t)d * 4 + 16;
        unsigned char* b = malloc(cap);
        size_t n = 0;
        for (int i = 0; i < d; i++) {
          unsigned o = oi < 7 ? oi : (unsigned)(i % 7); /* oi = 7: mixed kinds */
          b[n++] = open1[o][0];
          if (open1[o][1] == 1) b[n++] = 0x00; /* key first, container is the value */
        }
        if (inner == 0) b[n++] = 0x01;
        else if (inner == 1) { b[n++] = 0x5f; b[n++] = 0x41; b[n++] = 0x61; b[n++] = 0xff; }
        else { b[n++] = 0x7f; b[n++] = 0xff; }
        for (int i = d - 1; i >= 0; i--) {
          unsigned o = oi < 7 ? oi : (unsigned)(i % 7);
          if (open1[o][1] == 2) b[n++] = 0x00;         /* value after the container key */
          if (open1[o][0] == 0x9f || open1[o][0] == 0xbf) b[n++] = 0xff;
        }
        lean_expect = d + (inner > 0 ? 1 : 0) <= Lim ? 1 : 2;
        one_load(b, n);
        lean_expect = 0;
        free(b);
      }
    }
  }
}


/* ------------------------------------------------------------------ C14: suffix independence and sequences */
static void quiet_load_json(FILE* out, const unsigned char* in, size_t len) {
  /* exact-size copy, hook off; prints {"ok":..,"read":[8],"code":"..","tree":...} */
  unsigned char* blk;
  unsigned char* src = vh_exact_rot(len, &blk);
  memcpy(src, in, len);
  struct cbor_load_result r;
  memset(&r, 0xAB, sizeof r);
  cbor_verif_load_hook = NULL;
  cur_in = in; cur_len = len;
  cbor_item_t* it = cbor_load(src, len, &r);
  cbor_verif_load_hook = hook;
  free(blk);
  FILE* save = vh_out;
  vh_out = out;
  fprintf(out, "{\"ok\":%s,\"code\":\"%s\",\"read\":", it ? "true" : "false", code_name(r.error.code));
  vh_u64(r.read);
  fputs(",\"tree\":", out);
  vt_tree(out, it);
  fputc('}', out);
  vh_out = save;
  if (it) cbor_decref(&it);
}

static void suffix_case(const unsigned char* x, size_t xn, const unsigned char* y, size_t yn) {
  static unsigned char xy[1 << 18];
  input_index++;
  if (input_index <= opt_skip) return;
  executed++;
  memcpy(xy, x, xn);
  memcpy(xy + xn, y, yn);
  fputs("{\"e\":\"suffix\",\"x\":", vh_out);
  vh_bytes(x, xn);
  fputs(",\"y\":", vh_out);
  vh_bytes(y, yn < 16 ? yn : 16);
  fprintf(vh_out, ",\"ylen\":%zu,\"a\":", yn);
  quiet_load_json(vh_out, x, xn);
  fputs(",\"b\":", vh_out);
  quiet_load_json(vh_out, xy, xn + yn);
  fputs("}\n", vh_out);
  emitted++;
}

static void seq_case(int nitems) {
  /* concatenate nitems well-formed items and split them again the way examples/cbor_sequence.c does */
  static unsigned char b[1 << 16];
  size_t lens[8], n = 0;
  for (int i = 0; i < nitems; i++) {
    lens[i] = gen_item(b + n, 2048, (int)vh_randn(4));
    n += lens[i];
  }
  input_index++;
  if (input_index <= opt_skip) return;
  executed++;
  unsigned char* blk = malloc(n);
  memcpy(blk, b, n);
  cur_in = b; cur_len = n;
  fputs("{\"e\":\"seq\",\"buf\":", vh_out);
  vh_bytes(b, n);
  fputs(",\"lens\":[", vh_out);
  for (int i = 0; i < nitems; i++) fprintf(vh_out, i ? ",%zu" : "%zu", lens[i]);
  fputs("],\"got\":[", vh_out);
  size_t off = 0;
  int k = 0;
  const char* stop = "end";
  cbor_verif_load_hook = NULL;
  while (off < n && k < 64) {
    struct cbor_load_result r;
    cbor_item_t* it = cbor_load(blk + off, n - off, &r);
    if (!it) { stop = code_name(r.error.code); break; }
    fprintf(vh_out, "%s{\"read\":%zu,\"tree\":", k ? "," : "", r.read);
    vt_tree(vh_out, it);
    fputc('}', vh_out);
    cbor_decref(&it);
    off += r.read;
    k++;
  }
  cbor_verif_load_hook = hook;
  fprintf(vh_out, "],\"end\":%zu,\"total\":%zu,\"stop\":\"%s\"}\n", off, n, stop);
  free(blk);
  emitted++;
}

#include <sys/mman.h>
/* x at the start of a huge, never-touched (all zero) mapping: the suffix may be longer than 4 GiB */
static void huge_suffix_case(const unsigned char* x, size_t xn, size_t total) {
  input_index++;
  if (input_index <= opt_skip) return;
  executed++;
  unsigned char* big = mmap(NULL, total, PROT_READ | PROT_WRITE, MAP_PRIVATE | MAP_ANONYMOUS | MAP_NORESERVE, -1, 0);
  if (big == MAP_FAILED) return;
  memcpy(big, x, xn);
  cur_in = x; cur_len = xn;
  struct cbor_load_result r;
  cbor_verif_load_hook = NULL;
  cbor_item_t* it = cbor_load(big, total, &r);
  cbor_verif_load_hook = hook;
  fputs("{\"e\":\"suffix\",\"x\":", vh_out);
  vh_bytes(x, xn);
  fprintf(vh_out, ",\"y\":[0],\"ylen\":%zu,\"a\":", total - xn);
  quiet_load_json(vh_out, x, xn);
  fprintf(vh_out, ",\"b\":{\"ok\":%s,\"code\":\"%s\",\"read\":", it ? "true" : "false", code_name(r.error.code));
  FILE* save = vh_out;
  vh_u64(r.read);
  fputs(",\"tree\":", vh_out);
  vt_tree(vh_out, it);
  fputs("}}\n", vh_out);
  vh_out = save;
  if (it) cbor_decref(&it);
  munmap(big, total);
  emitted++;
}

static void seq_mode(long count) {
  static unsigned char x[8192], y[8192];
  { /* small and degenerate items followed by paddings of several lengths: nothing about x may depend on how much follows */
    static const char* edge[] = {"00", "17", "1818", "20", "40", "60", "80", "a0", "9fff", "bfff", "5fff", "7fff", "f6", "f4", "c000", "d81820", "8100", "9f00ff", "a10000", "bf0000ff",
                                 "5f40ff", "7f60ff", "8180", "9f9fffff", "c19fff", "bf009fffff", "f97c00", "fa00000000", "3a00010000", "1b0000000000000000", "5f4100ff", "829fffbfff",
                                 /* empty strings / containers and zero in every argument width: items that end exactly where their head ends */
                                 "5800", "590000", "5a00000000", "5b0000000000000000", "7800", "790000", "7a00000000", "7b0000000000000000",
                                 "9800", "990000", "9a00000000", "9b0000000000000000", "b800", "b90000", "ba00000000", "bb0000000000000000",
                                 "1800", "190000", "1a00000000", "3800", "390000", "3b0000000000000000", "d80000", "db000000000000000000", "82015b0000000000000000", "5f5b0000000000000000ff",
                                 "f90000", "fb0000000000000000", "c0f6", "d9d9f780", "da00010000f6",
                                 /* text ending inside a multi-byte sequence: what follows the item must not complete it */
                                 "61c3", "62e282", "6361e282", "63f09f98", "62f09f", "61f0", "61e2", "7f62e282ff", "62c3a9", "8161c3", "a161c3626182"};
    static const size_t pads[] = {1, 2, 3, 4, 7, 8, 9, 10, 15, 16, 17, 40, 100};
    for (size_t e = 0; e < sizeof edge / sizeof *edge; e++) {
      size_t xn = 0;
      for (const char* p = edge[e]; p[0] && p[1]; p += 2) { unsigned v; sscanf(p, "%2x", &v); x[xn++] = (unsigned char)v; }
      suffix_case(x, xn, y, 0);
      for (size_t pi = 0; pi < sizeof pads / sizeof *pads; pi++)
        for (int fill = 0; fill < 6; fill++) {
          static const unsigned char fills[] = {0x00, 0xff, 'x', 0x80, 0xbf, 0x98};
          memset(y, fills[fill], pads[pi]);
          suffix_case(x, xn, y, pads[pi]);
        }
      if (e % 4 == 0) {
        static const size_t totals[] = {0xffffffffull, 0x100000000ull, 0x100000003ull, 0x100001000ull, 0x200000000ull};
        for (int ti = 0; ti < 5; ti++) huge_suffix_case(x, xn, (size_t)totals[ti] + (ti == 2 ? 0 : 0));
        huge_suffix_case(x, xn, (size_t)0x100000000ull + xn - 1);
      }
    }
  }
  { /* definite strings followed by suffixes whose length, or whose length plus the payload, crosses 2^16: a length comparison done in
     * a narrower type than size_t shows exactly there */
    static unsigned char big_y[(1 << 17) + 16];
    memset(big_y, 'x', sizeof big_y);
    static const size_t slens[] = {24, 255, 256, 4096};
    for (unsigned si = 0; si < 4; si++)
      for (int text = 0; text < 2; text++) {
        size_t sl = slens[si], xn = 0;
        x[xn++] = (unsigned char)((text ? 0x60 : 0x40) | (sl < 256 ? 24 : 25));
        if (sl >= 256) x[xn++] = (unsigned char)(sl >> 8);
        x[xn++] = (unsigned char)sl;
        for (size_t i = 0; i < sl; i++) x[xn++] = (unsigned char)('a' + i % 26);
        const size_t pads[] = {65536 - xn - 1, 65536 - xn, 65536 - xn + 1, 65536 - sl - 1, 65536 - sl, 65536 - sl + 1, 65536 - sl / 2, 65535, 65536, 65537, 65536 + sl - 1, 65536 + sl, 131071, 131072};
        for (unsigned pi = 0; pi < sizeof pads / sizeof *pads; pi++) suffix_case(x, xn, big_y, pads[pi]);
      }
  }
  for (long i = 0; i < count; i++) {
    size_t xn = gen_item(x, 2048, (int)vh_randn(5));
    suffix_case(x, xn, y, 0);
    /* every single byte for some x, a sample for the others */
    int nb = i < 12 ? 256 : 6;
    for (int k = 0; k < nb; k++) {
      y[0] = (unsigned char)(i < 12 ? k : vh_rand());
      suffix_case(x, xn, y, 1);
    }
    size_t yn = gen_item(y, 2048, 2);
    suffix_case(x, xn, y, yn);          /* another well-formed item */
    yn = 1 + vh_randn(24);
    for (size_t j = 0; j < yn; j++) y[j] = (unsigned char)vh_rand();
    suffix_case(x, xn, y, yn);          /* garbage */
    static const unsigned char tricky[][3] = {{0xff, 0, 0}, {0x5f, 0, 0}, {0x1c, 0, 0}, {0x5b, 0xff, 0xff}, {0x9f, 0xff, 0}, {0x18, 0, 0}};
    for (int k = 0; k < 6; k++) suffix_case(x, xn, tricky[k], k == 3 || k == 4 ? 3 : 1);
    seq_case(1 + (int)vh_randn(6));
  }
}

static int hexval(int c) { return c >= '0' && c <= '9' ? c - '0' : c >= 'a' && c <= 'f' ? c - 'a' + 10 : c >= 'A' && c <= 'F' ? c - 'A' + 10 : -1; }

static int real_main(int argc, char** argv);
struct margs { int argc; char** argv; int rc; };
static void* thread_main(void* p) { struct margs* m = p; m->rc = real_main(m->argc, m->argv); return NULL; }
#include <pthread.h>
int main(int argc, char** argv) {
  for (int i = 1; i + 1 < argc; i++)
    if (!strcmp(argv[i], "--stack")) {
      /* run everything on a thread with a small fixed stack (C19: native stack proportional to L) */
      pthread_attr_t at;
      pthread_attr_init(&at);
      pthread_attr_setstacksize(&at, (size_t)atol(argv[i + 1]) * 1024);
      pthread_t th;
      struct margs m = {argc, argv, 0};
      if (pthread_create(&th, &at, thread_main, &m)) return 2;
      pthread_join(th, NULL);
      return m.rc;
    }
  return real_main(argc, argv);
}
static int real_main(int argc, char** argv) {
  int a = 1;
  for (; a < argc && argv[a][0] == '-' && argv[a][1] == '-'; a++) {
    if (!strcmp(argv[a], "--dedup")) opt_dedup = 1;
    else if (!strcmp(argv[a], "--noops")) opt_noops = 1;
    else if (!strcmp(argv[a], "--suffix")) opt_suffix = 1;
    else if (!strcmp(argv[a], "--skip")) opt_skip = atol(argv[++a]);
    else if (!strcmp(argv[a], "--lean")) opt_lean = 1;
    else if (!strcmp(argv[a], "--libc")) opt_libc = 1;
    else if (!strcmp(argv[a], "--nodesc")) opt_nodesc = 1;
    else if (!strcmp(argv[a], "--faults")) opt_faults = atoi(argv[++a]);
    else if (!strcmp(argv[a], "--stack")) opt_stack_kb = atol(argv[++a]);
  }
  if (a >= argc) return 2;
  devnull = fopen("/dev/null", "w");
  if (!opt_libc) va_install(); /* --libc: the C library's own malloc/realloc/free (e.g. realloc(p, 0) returning NULL) */
#ifdef HAVE_SAN
  __sanitizer_set_death_callback(on_death);
#endif
  (void)on_death;
  signal(SIGALRM, on_signal);
  signal(SIGPROF, on_signal);
  signal(SIGABRT, on_signal);
#ifndef HAVE_SAN
  {
    /* alternate signal stack so that an overflow of the (small) thread stack is still reported */
    static char altstack[1 << 16];
    stack_t ss = {.ss_sp = altstack, .ss_size = sizeof altstack, .ss_flags = 0};
    sigaltstack(&ss, NULL);
    struct sigaction sa;
    memset(&sa, 0, sizeof sa);
    sa.sa_handler = on_signal;
    sa.sa_flags = SA_ONSTACK;
    sigaction(SIGSEGV, &sa, NULL);
    sigaction(SIGBUS, &sa, NULL);
  }
#endif
  cbor_verif_load_hook = opt_lean ? NULL : hook;
  const char* mode = argv[a];
  static unsigned char buf[1 << 18];
  if (!strcmp(mode, "dfs")) {
    int n = atoi(argv[a + 1]);
    int all = a + 2 < argc && !strcmp(argv[a + 2], "all");
    one_load(buf, 0);
    dfs(buf, 0, 0, n, all);
  } else if (!strcmp(mode, "bytes")) {
    int k = atoi(argv[a + 1]);
    for (int l = 1; l <= k; l++) {
      unsigned long total = 1ul << (8 * l);
      for (unsigned long v = 0; v < total; v++) {
        for (int i = 0; i < l; i++) buf[i] = (unsigned char)(v >> (8 * (l - 1 - i)));
        one_load(buf, l);
      }
    }
  } else if (!strcmp(mode, "bytesk")) {
    int l = atoi(argv[a + 1]);
    unsigned lo = atoi(argv[a + 2]), hi = atoi(argv[a + 3]);
    unsigned long per = 1ul << (8 * (l - 1));
    for (unsigned f = lo; f <= hi; f++)
      for (unsigned long v = 0; v < per; v++) {
        /* 4-byte strings 99 hhll xx / b9 hhll xx declare up to 65535 entries: every one of these loads obtains and releases up to
         * 1 MiB (50 minutes per first byte under ASan). Declared counts above 1024 are thinned to every 7th one. */
        if (l == 4 && (f == 0x99 || f == 0xb9) && (v >> 8) > 1024 && (v >> 8) % 7 != 3) continue;
        buf[0] = (unsigned char)f;
        for (int i = 1; i < l; i++) buf[i] = (unsigned char)(v >> (8 * (l - 1 - i)));
        one_load(buf, l);
      }
  } else if (!strcmp(mode, "hex")) {
    FILE* f = strcmp(argv[a + 1], "-") ? fopen(argv[a + 1], "r") : stdin;
    if (!f) return 2;
    static char line[1 << 18];
    static unsigned char in[1 << 17];
    while (fgets(line, sizeof line, f)) {
      size_t n = 0;
      for (char* p = line; hexval(p[0]) >= 0 && hexval(p[1]) >= 0; p += 2) in[n++] = (unsigned char)(hexval(p[0]) << 4 | hexval(p[1]));
      one_load(in, n);
    }
  } else if (!strcmp(mode, "rand")) {
    long count = atol(argv[a + 1]);
    for (long i = 0; i < count; i++) {
      size_t n = gen_item(buf, i % 40 == 7 ? 80000 : 4096, 1 + (int)vh_randn(5));
      mutate_and_load(buf, n);
    }
  } else if (!strcmp(mode, "big")) {
    /* shallow trees with very large payloads / member counts (size parameter in KiB): stack use must not grow with them */
    size_t kb = (size_t)atol(argv[a + 1]);
    size_t payload = kb * 1024;
    unsigned char* big = malloc(payload * 3 + 64);
    for (int kind = 0; kind < 7; kind++) {
      size_t n = 0;
      switch (kind) {
        case 0: case 1: /* definite byte / text string */
          big[n++] = kind ? 0x7a : 0x5a; big[n++] = (unsigned char)(payload >> 24); big[n++] = (unsigned char)(payload >> 16); big[n++] = (unsigned char)(payload >> 8); big[n++] = (unsigned char)payload;
          memset(big + n, kind ? 'a' : 0xA5, payload); n += payload; break;
        case 2: { size_t c = payload / 2; big[n++] = 0x9a; big[n++] = (unsigned char)(c >> 24); big[n++] = (unsigned char)(c >> 16); big[n++] = (unsigned char)(c >> 8); big[n++] = (unsigned char)c;
                  memset(big + n, 0x01, c); n += c; break; }                                          /* array of c small ints */
        case 3: { size_t c = payload / 4; big[n++] = 0xbf; for (size_t i = 0; i < c; i++) { big[n++] = 0x01; big[n++] = 0xf6; } big[n++] = 0xff; break; } /* indefinite map */
        case 4: { size_t c = payload / 4; big[n++] = 0x5f; for (size_t i = 0; i < c; i++) { big[n++] = 0x41; big[n++] = 0x00; } big[n++] = 0xff; break; }  /* many chunks */
        case 5: big[n++] = 0x82; big[n++] = 0x01; big[n++] = 0xc2; big[n++] = 0x5a; big[n++] = (unsigned char)(payload >> 24); big[n++] = (unsigned char)(payload >> 16); big[n++] = (unsigned char)(payload >> 8);
                big[n++] = (unsigned char)payload; memset(big + n, 0xA5, payload); n += payload; break;   /* [1, 2(h'...')] */
        default: { size_t c = payload / 2; big[n++] = 0x9f; memset(big + n, 0x20, c); n += c; big[n++] = 0xff; break; }
      }
      lean_expect = (kind == 5 ? 2 : 1) <= CBOR_MAX_STACK_SIZE ? 1 : 2; /* well-formed, one or two levels deep */
      one_load(big, n);
      lean_expect = 0;
    }
    free(big);
  } else if (!strcmp(mode, "wide")) {
    /* flat containers and chunked strings with member counts around every size an implementation could key on */
    int all = a + 1 < argc && atoi(argv[a + 1]) > 0;
    /* (the step-by-step judge is quadratic in the member count: the full list of counts goes through "widesum" below) */
    static const size_t counts_q[] = {257, 1025}, counts_t[] = {255, 256, 257, 1023, 1025, 4097};
    const size_t* counts = all ? counts_t : counts_q;
    size_t ncounts = all ? 6 : 2;
    unsigned char* big = malloc(3 * 65537 + 64);
    for (size_t ci = 0; ci < ncounts; ci++)
      for (int kind = 0; kind < 6; kind++) {
        size_t c = counts[ci], n = 0;
        switch (kind) {
          case 0: big[n++] = 0x9f; memset(big + n, 0x01, c); n += c; big[n++] = 0xff; break;
          case 1: big[n++] = 0xbf; for (size_t i = 0; i < c; i++) { big[n++] = 0x01; big[n++] = 0xf6; } big[n++] = 0xff; break;
          case 2: big[n++] = 0x5f; for (size_t i = 0; i < c; i++) { big[n++] = 0x41; big[n++] = (unsigned char)i; } big[n++] = 0xff; break;
          case 3: big[n++] = 0x7f; for (size_t i = 0; i < c; i++) { big[n++] = 0x61; big[n++] = 'a'; } big[n++] = 0xff; break;
          case 4: big[n++] = c < 65536 ? 0x99 : 0x9a; if (c >= 65536) { big[n++] = 0; big[n++] = (unsigned char)(c >> 16); } big[n++] = (unsigned char)(c >> 8); big[n++] = (unsigned char)c;
                  memset(big + n, 0x20, c); n += c; break;
          default: big[n++] = c < 65536 ? 0xb9 : 0xba; if (c >= 65536) { big[n++] = 0; big[n++] = (unsigned char)(c >> 16); } big[n++] = (unsigned char)(c >> 8); big[n++] = (unsigned char)c;
                  for (size_t i = 0; i < c; i++) { big[n++] = 0x01; big[n++] = 0xf5; } break;
        }
        one_load(big, n);
      }
    free(big);
  } else if (!strcmp(mode, "widesum")) {
    /* the same shapes with member counts up to 2^16+1 (thorough: 2^20+1), one summary line per load: accepted, bytes read, member count,
     * the first and last members, everything released. Judged by Trace_Wide. */
    int all = a + 1 < argc && atoi(argv[a + 1]) > 0;
    va_cap = 0; /* no size cap here: whatever growth policy the library uses, these requests are granted */
    static const size_t counts_q[] = {23, 24, 255, 256, 257, 511, 512, 513, 1023, 1024, 1025, 2047, 2048, 2049, 4095, 4096, 4097, 6143, 6144, 6145, 8191, 8192, 8193, 12289, 16385, 32769, 65535, 65536, 65537};
    static const size_t counts_x[] = {98305, 131071, 131072, 131073, 262145, 524289, 1048575, 1048576, 1048577};
    size_t maxc = all ? 1048577 : 65537;
    unsigned char* big = malloc(3 * maxc + 64);
    for (size_t ci = 0; ci < sizeof counts_q / sizeof *counts_q + (all ? sizeof counts_x / sizeof *counts_x : 0); ci++)
      for (int kind = 0; kind < 6; kind++) {
        size_t c = ci < sizeof counts_q / sizeof *counts_q ? counts_q[ci] : counts_x[ci - sizeof counts_q / sizeof *counts_q], n = 0;
        switch (kind) {
          case 0: big[n++] = 0x9f; for (size_t i = 0; i < c; i++) big[n++] = (unsigned char)(i % 24); big[n++] = 0xff; break;
          case 1: big[n++] = 0xbf; for (size_t i = 0; i < c; i++) { big[n++] = (unsigned char)(i % 24); big[n++] = 0xf6; } big[n++] = 0xff; break;
          case 2: big[n++] = 0x5f; for (size_t i = 0; i < c; i++) { big[n++] = 0x41; big[n++] = (unsigned char)(i % 24); } big[n++] = 0xff; break;
          case 3: big[n++] = 0x7f; for (size_t i = 0; i < c; i++) { big[n++] = 0x61; big[n++] = (unsigned char)('a' + i % 24); } big[n++] = 0xff; break;
          case 4: if (c < 24) big[n++] = (unsigned char)(0x80 + c); else if (c < 256) { big[n++] = 0x98; big[n++] = (unsigned char)c; } else if (c < 65536) { big[n++] = 0x99; big[n++] = (unsigned char)(c >> 8); big[n++] = (unsigned char)c; }
                  else { big[n++] = 0x9a; big[n++] = 0; big[n++] = (unsigned char)(c >> 16); big[n++] = (unsigned char)(c >> 8); big[n++] = (unsigned char)c; }
                  for (size_t i = 0; i < c; i++) big[n++] = (unsigned char)(i % 24); break;
          default: if (c < 24) big[n++] = (unsigned char)(0xa0 + c); else if (c < 256) { big[n++] = 0xb8; big[n++] = (unsigned char)c; } else if (c < 65536) { big[n++] = 0xb9; big[n++] = (unsigned char)(c >> 8); big[n++] = (unsigned char)c; }
                  else { big[n++] = 0xba; big[n++] = 0; big[n++] = (unsigned char)(c >> 16); big[n++] = (unsigned char)(c >> 8); big[n++] = (unsigned char)c; }
                  for (size_t i = 0; i < c; i++) { big[n++] = (unsigned char)(i % 24); big[n++] = 0xf5; } break;
        }
        unsigned char* blk;
        unsigned char* src = vh_exact_rot(n, &blk);
        memcpy(src, big, n);
        struct cbor_load_result res;
        memset(&res, 0xAB, sizeof res);
        long live0 = va.live;
        cur_in = big; cur_len = n < 64 ? n : 64;
        input_index++;
        watchdog(1);
        cbor_verif_load_hook = NULL;
        cbor_item_t* it = cbor_load(src, n, &res);
        watchdog(0);
        memset(src, 0xEE, n);
        free(blk);
        fprintf(vh_out, "{\"e\":\"wide\",\"kind\":%d,\"count\":%zu,\"len\":%zu,\"ok\":%s,\"code\":\"%s\",\"read\":%zu", kind, c, n, it ? "true" : "false", code_name(res.error.code), it ? res.read : 0);
        size_t got = 0;
        long wrong = 0;
        if (it) {
          /* member i must be the i-th one written (value i mod 24): order and content, without logging 10^6 members */
          if ((kind == 0 || kind == 4) && cbor_isa_array(it)) { got = cbor_array_size(it); for (size_t i = 0; i < got; i++) { cbor_item_t* m = cbor_array_handle(it)[i]; if (!cbor_isa_uint(m) || cbor_get_uint8(m) != i % 24 || cbor_refcount(m) != 1) wrong++; } }
          else if ((kind == 1 || kind == 5) && cbor_isa_map(it)) { got = cbor_map_size(it); for (size_t i = 0; i < got; i++) { struct cbor_pair* p = &cbor_map_handle(it)[i]; if (!cbor_isa_uint(p->key) || cbor_get_uint8(p->key) != i % 24 || !cbor_isa_float_ctrl(p->value) || cbor_refcount(p->key) != 1) wrong++; } }
          else if (kind == 2 && cbor_isa_bytestring(it) && cbor_bytestring_is_indefinite(it)) { got = cbor_bytestring_chunk_count(it); for (size_t i = 0; i < got; i++) { cbor_item_t* m = cbor_bytestring_chunks_handle(it)[i]; if (cbor_bytestring_length(m) != 1 || cbor_bytestring_handle(m)[0] != i % 24) wrong++; } }
          else if (kind == 3 && cbor_isa_string(it) && cbor_string_is_indefinite(it)) { got = cbor_string_chunk_count(it); for (size_t i = 0; i < got; i++) { cbor_item_t* m = cbor_string_chunks_handle(it)[i]; if (cbor_string_length(m) != 1 || cbor_string_handle(m)[0] != 'a' + i % 24) wrong++; } }
          else wrong = -1;
          int def = kind >= 4;
          if ((kind == 0 || kind == 4) && cbor_isa_array(it) && cbor_array_is_definite(it) != def) wrong++;
          if ((kind == 1 || kind == 5) && cbor_isa_map(it) && cbor_map_is_definite(it) != def) wrong++;
          cbor_decref(&it);
        }
        fprintf(vh_out, ",\"got\":%zu,\"wrong\":%ld,\"live\":%ld}\n", got, wrong, va.live - live0);
      }
    free(big);
  } else if (!strcmp(mode, "texts")) {
    /* text strings (definite and as chunks) whose ASCII runs have every length 0..300, alone and behind / between multi-byte scalars:
     * block-wise validators have their edges at multiples of 4, 8, 16, 32, 64 */
    static const char* pre[] = {"", "\xc3\xa9", "\xe2\x82\xac", "\xf0\x9f\x98\x80", "\xff"};
    unsigned char* t = malloc(1024);
    for (size_t run = 0; run <= 300; run++)
      for (int pi = 0; pi < 5; pi++)
        for (int shape = 0; shape < 3; shape++) {
          if (shape && run % 7 != 3 && run % 32 > 1) continue;   /* the chunked and sandwiched shapes for a subset */
          size_t pl = strlen(pre[pi]), len = pl + run + (shape == 2 ? pl : 0), n = 0;
          if (shape == 1) t[n++] = 0x7f;
          if (len < 24) t[n++] = (unsigned char)(0x60 + len); else if (len < 256) { t[n++] = 0x78; t[n++] = (unsigned char)len; } else { t[n++] = 0x79; t[n++] = (unsigned char)(len >> 8); t[n++] = (unsigned char)len; }
          memcpy(t + n, pre[pi], pl); n += pl;
          for (size_t i = 0; i < run; i++) t[n++] = (unsigned char)('a' + i % 26);
          if (shape == 2) { memcpy(t + n, pre[pi], pl); n += pl; }
          if (shape == 1) t[n++] = 0xff;
          one_load(t, n);
        }
    free(t);
  } else if (!strcmp(mode, "deep")) {
    /* every opener kind nested N deep (far beyond any nesting limit), unclosed and closed: the decoder must refuse with
     * an error code, and must do so without exhausting the native stack */
    size_t N = (size_t)atol(argv[a + 1]);
    static const unsigned char openers[][2] = {{0x81, 0}, {0x9f, 0}, {0xa1, 1}, {0xbf, 1}, {0xc6, 0}, {0xd8, 2}, {0x82, 3}, {0xbf, 4}};
    unsigned char* big = malloc(N * 3 + 8);
    for (unsigned k = 0; k < 8; k++) {
      size_t n = 0;
      for (size_t i = 0; i < N; i++) {
        big[n++] = openers[k][0];
        if (openers[k][1] == 1) big[n++] = 0x00;                    /* map: key first, nesting in the value */
        if (openers[k][1] == 2) big[n++] = 0x20;                    /* tag with a one-byte argument */
        if (openers[k][1] == 3) big[n++] = 0xf6;                    /* [null, [null, ...]] */
        if (openers[k][1] == 4 && i % 2) { big[n - 1] = 0x9f; }     /* alternating indefinite map (key position) / array */
      }
      one_load(big, n);
      big[n++] = 0x01;
      one_load(big, n);
    }
    free(big);
  } else if (!strcmp(mode, "seq")) {
    seq_mode(atol(argv[a + 1]));
  } else if (!strcmp(mode, "nest")) {
    nest_family(CBOR_MAX_STACK_SIZE, a + 1 < argc ? (unsigned)strtoul(argv[a + 1], NULL, 0) : 0xffu);
  } else
    return 2;
  fflush(vh_out);
  fprintf(stderr, "h_load: inputs=%ld executed=%ld emitted=%ld shape_failures=%ld L=%d\n", input_index, executed, emitted, shape_failures,
          CBOR_MAX_STACK_SIZE);
  return 0;
}
