/* C08 recorder: drives cbor_stream_decode over (initial byte x argument x provided length) and logs one
 * ndjson line per call. Buffers are exactly-sized heap blocks (ASan red zone right behind).
 * usage: h_wire <quick|thorough> */
#ifdef VH_GLOBALS
#define _GNU_SOURCE
#endif
#include "vh.h"
#ifdef VH_GLOBALS
/* "keeps no state between calls": with libcbor.so's writable segments (.data/.bss/.got, bound eagerly) write-protected,
 * any store a call makes to a static or global of the library faults and is counted (built against the shared library) */
#include "vh_globals.h"
static int globals_main(void) {
  va_install();
  vg_setup();
  long calls = 0, faulting_calls = 0;
  unsigned char first[12] = {0};
  size_t firstn = 0;
  for (int pass = 0; pass < 2; pass++)      /* the very first call of each kind, and a later one */
    for (unsigned b0 = 0; b0 < 256; b0++) {
      unsigned ai = b0 & 31;
      int argw = ai == 24 ? 1 : ai == 25 ? 2 : ai == 26 ? 4 : ai == 27 ? 8 : 0;
      static const uint64_t vals[] = {0, 1, 24, 0x3c00, 0x0001, 0x8001, 0x7c00, 0xfe00, 0x80000000u, 0xffffffffu, 0x3ff0000000000000ull, 0x8000000000000001ull, ~0ull};
      for (size_t vi = 0; vi < sizeof vals / sizeof *vals; vi++) {
        unsigned char img[16] = {0};
        img[0] = (unsigned char)b0;
        for (int i = 0; i < argw; i++) img[1 + i] = (unsigned char)(vals[vi] >> (8 * (argw - 1 - i)));
        for (size_t n = 0; n <= (size_t)argw + 2; n++) {
          unsigned char* blk;
          unsigned char* w = vh_exact_rot(n, &blk);
          memcpy(w, img, n);
          int f0 = gfaults;
          vg_protect(1);
          struct cbor_decoder_result r = cbor_stream_decode(w, n, &vh_recording_callbacks, VH_CTX);
          vg_protect(0);
          (void)r;
          calls++;
          if (gfaults > f0 && !faulting_calls++) { firstn = n < 12 ? n : 12; memcpy(first, w, firstn); }
          free(blk);
        }
        if (argw == 0) break;
      }
    }
  /* device self-test: re-installing the allocators IS a store to the library's globals and must fault */
  int f1 = gfaults;
  vg_protect(1);
  va_install();
  vg_protect(0);
  fprintf(vh_out, "{\"e\":\"globals\",\"segments\":%d,\"calls\":%ld,\"faults\":%ld,\"symbol\":\"%s\",\"selftest\":%s", nseg, calls, faulting_calls, faulting_calls ? gsym : "", gfaults > f1 ? "true" : "false");
  vh_kbytes("first", first, firstn);
  fprintf(vh_out, "}\n");
  fflush(vh_out);
  _exit(0); /* (exit handlers of the library may write to its .bss) */
}
#endif

static long nlines;

static int force_align = -1;
static void one(const unsigned char* img, size_t imglen, size_t n, unsigned char fill) {
  /* window of n bytes: img bytes (as far as they go) then `fill`; flush with the end of its block, start address rotating through all alignments */
  unsigned char* blk;
  unsigned char* buf = force_align >= 0 ? vh_exact(n, (unsigned)force_align, &blk) : vh_exact_rot(n, &blk);
  for (size_t i = 0; i < n; i++) buf[i] = i < imglen ? img[i] : fill;
  vh_ev_clear();
  va_reset_counters();
  struct cbor_decoder_result r = cbor_stream_decode(buf, n, &vh_recording_callbacks, VH_CTX);
  fprintf(vh_out, "{\"e\":\"sd\"");
  vh_kbytes("buf", buf, n < 10 ? n : 10);
  vh_kint("n", (long long)n);
  vh_kstr("st", r.status == CBOR_DECODER_FINISHED ? "fin" : r.status == CBOR_DECODER_NEDATA ? "nedata" : "error");
  vh_kint("read", (long long)r.read);
  vh_ku64("req", r.required);
  vh_kint("calls", vh_ev.calls);
  vh_kbool("ctx", !vh_ev.ctx_bad);
  vh_kstr("slot", vh_ev.slot);
  vh_kbytes("arg", vh_ev.arg, vh_ev.arglen);
  vh_kint("off", vh_ev.data ? (long long)(vh_ev.data - buf) : 0);
  vh_kint("allocs", va.requests + va.frees + va.free_null);
  fprintf(vh_out, "}\n");
  nlines++;
  free(blk);
}

static size_t mk_head(unsigned char* img, unsigned b0, int argw, uint64_t arg) {
  img[0] = (unsigned char)b0;
  for (int i = 0; i < argw; i++) img[1 + i] = (unsigned char)(arg >> (8 * (argw - 1 - i)));
  return 1 + argw;
}

int main(int argc, char** argv) {
#ifdef VH_GLOBALS
  if (argc > 1 && !strcmp(argv[1], "globals")) return globals_main();
#endif
  bool thorough = argc > 1 && !strcmp(argv[1], "thorough");
  va_install();
  one(NULL, 0, 0, 0);
  for (unsigned b0 = 0; b0 < 256; b0++) {
    unsigned mt = b0 >> 5, ai = b0 & 31;
    int argw = ai == 24 ? 1 : ai == 25 ? 2 : ai == 26 ? 4 : ai == 27 ? 8 : 0;
    bool str = (mt == 2 || mt == 3) && ai < 28;
    unsigned char img[9];
    /* argument values */
    uint64_t vals[4096];
    int nv = 0;
    if (argw == 0) vals[nv++] = 0;
    else if (argw == 1) for (unsigned v = 0; v < 256; v++) vals[nv++] = v;
    else if (argw == 2) {
      if (thorough) nv = -1; /* all 65536, handled below */
      else {
        for (uint64_t v = 0; v < 65536; v += 251) vals[nv++] = v;
        uint64_t b[] = {1, 23, 24, 255, 256, 257, 32767, 32768, 65534, 65535, 55798, 55799, 55800, 0xd9f6, 0xf7d9};
        for (size_t i = 0; i < sizeof b / sizeof *b; i++) vals[nv++] = b[i];
      }
    } else {
      int bits = argw * 8;
      vals[nv++] = 0;
      for (int k = 0; k < bits; k++) {
        uint64_t p = (uint64_t)1 << k;
        vals[nv++] = p - 1; vals[nv++] = p; vals[nv++] = p + 1;
      }
      uint64_t top = argw == 4 ? 0xFFFFFFFFull : ~0ull;
      vals[nv++] = top; vals[nv++] = top - 1; vals[nv++] = top - 2; vals[nv++] = top - 8; vals[nv++] = top - 9;
      for (int k = 0; k < (thorough ? 200 : 24); k++) vals[nv++] = vh_rand() & top;
    }
    long total = nv < 0 ? 65536 : nv;
    for (long vi = 0; vi < total; vi++) {
      uint64_t v = nv < 0 ? (uint64_t)vi : vals[vi];
      if (argw == 4) v &= 0xFFFFFFFFull;
      size_t hl = mk_head(img, b0, argw, v);
      bool dense = (nv >= 0) || (vi % 97 == 0) || vi < 300 || vi > 65200;
      /* every window length from 0 to head+1 (trailing byte varied) */
      if (dense) {
        for (size_t n = 1; n <= hl; n++) one(img, hl, n, 0xA5);
        one(img, hl, hl + 1, 0x00);
        one(img, hl, hl + 1, 0xFF);
        /* more bytes behind the head than it needs: the result may not depend on them nor on how many there are */
        static const size_t more[] = {2, 3, 4, 7, 8, 9, 15, 16, 17, 64};
        for (size_t mi = 0; mi < (str ? 0 : 10); mi++) one(img, hl, hl + more[mi], (unsigned char)(0x11 * (mi + 1)));
        /* the same head at every start address modulo 16: the result may not depend on where the caller keeps its bytes */
        if (argw >= 4 || (argw == 2 && (nv >= 0 ? vi % 3 == 0 : vi % 970 == 0)))
          for (force_align = 0; force_align < 16; force_align++) { one(img, hl, hl, 0xA5); if (!str) one(img, hl, hl + 3, 0x5A); }
        force_align = -1;
        /* the complete head followed by every possible next byte: a FINISHED result depends on nothing beyond what it reports as read */
        if (vi == 0 && !str) for (unsigned nb = 0; nb < 256; nb++) one(img, hl, hl + 1, (unsigned char)nb);
      } else {
        one(img, hl, hl, 0xA5);
        one(img, hl, hl - 1, 0xA5);
      }
      if (str) {
        uint64_t len = argw == 0 ? ai : v;
        uint64_t full = hl + len;
        size_t cap = thorough ? ((size_t)1 << 24) : ((size_t)1 << 17);
        if (len < cap) {
          if (full > hl + 1) one(img, hl, full - 1, 0x5A);
          one(img, hl, full, 0x5A);
          one(img, hl, full + 1, 0x5A);
          if (dense) { one(img, hl, full + 8, 0x3C); one(img, hl, full + 9, 0xC3); one(img, hl, full + 33, 0x77); }
          if (dense && full > hl + 2) one(img, hl, hl + (full - hl) / 2, 0x5A);
        } else {
          one(img, hl, hl + 7, 0x5A);
          one(img, hl, 4096, 0x5A);
        }
      }
    }
  }
  fflush(vh_out);
  fprintf(stderr, "h_wire: %ld lines\n", nlines);
  return 0;
}
