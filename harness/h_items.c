/* Recorder for API histories (C04 ownership, C12 containers): seeded random sequences of public calls that
 * follow the documented ownership rules, over a table of client references; after every call the complete
 * observable state of everything reachable from the client's references is logged.
 * Item identity = serial number of its allocator block (unique per allocation).
 * usage: h_items hist <HISTORIES> <STEPS> [containers]   */
#include <signal.h>
#include <unistd.h>

#include "h_gen.h"
#include "h_tree.h"

#define NH 24
static struct { cbor_item_t* p; int crefs; } H[NH];
static long nops, nhist;
static int opt_inrange; /* C04 runs: only in-range indexes and non-full definite containers (out-of-range behaviour is C12's business) */

/* dense per-history item ids: (allocator serial) -> 1, 2, 3, ... in order of first appearance */
static long dense_serial[4096];
static int ndense;
static long id_of(const cbor_item_t* it) {
  if (!it) return 0;
  long s = va_block_id(it);
  for (int i = 0; i < ndense; i++) if (dense_serial[i] == s) return i + 1;
  if (ndense < 4096) dense_serial[ndense++] = s;
  return ndense;
}

static const cbor_item_t* kid(const cbor_item_t* it, size_t k) {
  switch (cbor_typeof(it)) {
    case CBOR_TYPE_ARRAY: return cbor_array_handle(it)[k];
    case CBOR_TYPE_MAP: return k % 2 ? cbor_map_handle(it)[k / 2].value : cbor_map_handle(it)[k / 2].key;
    case CBOR_TYPE_TAG: return it->metadata.tag_metadata.tagged_item;
    case CBOR_TYPE_BYTESTRING: return cbor_bytestring_chunks_handle(it)[k];
    case CBOR_TYPE_STRING: return cbor_string_chunks_handle(it)[k];
    default: return NULL;
  }
}
static size_t nkids(const cbor_item_t* it) {
  switch (cbor_typeof(it)) {
    case CBOR_TYPE_ARRAY: return cbor_array_size(it);
    case CBOR_TYPE_MAP: return 2 * cbor_map_size(it);
    case CBOR_TYPE_TAG: return it->metadata.tag_metadata.tagged_item ? 1 : 0;
    case CBOR_TYPE_BYTESTRING: return cbor_bytestring_is_indefinite(it) ? cbor_bytestring_chunk_count(it) : 0;
    case CBOR_TYPE_STRING: return cbor_string_is_indefinite(it) ? cbor_string_chunk_count(it) : 0;
    default: return 0;
  }
}
static const char* tname(const cbor_item_t* it, const char** sub, int* def, size_t* cap) {
  *sub = ""; *def = 1; *cap = 0;
  switch (cbor_typeof(it)) {
    case CBOR_TYPE_ARRAY: *def = cbor_array_is_definite(it); *cap = cbor_array_allocated(it); return "arr";
    case CBOR_TYPE_MAP: *def = cbor_map_is_definite(it); *cap = cbor_map_allocated(it); return "map";
    case CBOR_TYPE_TAG: return "tag";
    case CBOR_TYPE_BYTESTRING:
      *sub = "bstr";
      if (cbor_bytestring_is_indefinite(it)) { *def = 0; *cap = ((struct cbor_indefinite_string_data*)it->data)->chunk_capacity; return "chunked"; }
      return "leaf";
    case CBOR_TYPE_STRING:
      *sub = "tstr";
      if (cbor_string_is_indefinite(it)) { *def = 0; *cap = ((struct cbor_indefinite_string_data*)it->data)->chunk_capacity; return "chunked"; }
      return "leaf";
    case CBOR_TYPE_UINT: case CBOR_TYPE_NEGINT: *sub = "int"; return "leaf";
    default: *sub = "float"; return "leaf";
  }
}

/* visited set for the state walk */
static const cbor_item_t* seen[4096];
static int nseen;
static int visit(const cbor_item_t* it) {
  for (int i = 0; i < nseen; i++) if (seen[i] == it) return 0;
  if (nseen < 4096) seen[nseen++] = it;
  return 1;
}
static int first_node;
static void walk(const cbor_item_t* it) {
  if (!it || !visit(it)) return;
  const char* sub; int def; size_t cap;
  const char* t = tname(it, &sub, &def, &cap);
  fprintf(vh_out, "%s{\"id\":%ld,\"rc\":%zu,\"t\":\"%s\",\"sub\":\"%s\",\"def\":%s,\"cap\":%zu,\"kids\":[", first_node ? "" : ",", id_of(it), cbor_refcount(it), t, sub,
          def ? "true" : "false", cap);
  first_node = 0;
  size_t n = nkids(it);
  for (size_t k = 0; k < n; k++) fprintf(vh_out, k ? ",%ld" : "%ld", id_of(kid(it, k)));
  fputs("]}", vh_out);
  for (size_t k = 0; k < n; k++) walk(kid(it, k));
}
static int reaches(const cbor_item_t* from, const cbor_item_t* target) {
  if (!from) return 0;
  if (from == target) return 1;
  size_t n = nkids(from);
  for (size_t k = 0; k < n; k++) if (reaches(kid(from, k), target)) return 1;
  return 0;
}

/* a tag that has not been given its item yet is not a complete data item: it may not be copied or serialized */
static int complete(const cbor_item_t* it) {
  if (!it) return 0;
  if (cbor_isa_tag(it) && !it->metadata.tag_metadata.tagged_item) return 0;
  size_t n = nkids(it);
  for (size_t k = 0; k < n; k++) if (!complete(kid(it, k))) return 0;
  return 1;
}

static long re0, refused0;
static void op_begin(void) { re0 = va.reallocs; refused0 = va.refused; }
/* now and then the allocator refuses one of the next few requests: the operation must fail and change nothing */
static void maybe_fault(void) {
  if (vh_randn(9) == 0) { va_fault_mode = VA_ONLY; va_fault_k = va.requests + (long)vh_randn(4); }
}
static void op_end(const char* name, long a0, long a1, long a2, long idx, long ret) {
  va_fault_mode = VA_NONE;
  fprintf(vh_out, "{\"e\":\"op\",\"name\":\"%s\",\"a\":[%ld,%ld,%ld],\"idx\":%ld,\"ret\":%ld,\"re\":%ld,\"x\":%ld,\"live\":%ld,\"client\":[", name, a0, a1, a2, idx, ret,
          va.reallocs - re0, va.refused - refused0, va.live);
  int f = 1;
  for (int i = 0; i < NH; i++)
    if (H[i].crefs > 0) { fprintf(vh_out, "%s[%ld,%d]", f ? "" : ",", id_of(H[i].p), H[i].crefs); f = 0; }
  fputs("],\"state\":[", vh_out);
  nseen = 0;
  first_node = 1;
  for (int i = 0; i < NH; i++) if (H[i].crefs > 0) walk(H[i].p);
  fputs("]}\n", vh_out);
  nops++;
}

static int slot_of(const cbor_item_t* p) {
  for (int i = 0; i < NH; i++) if (H[i].crefs > 0 && H[i].p == p) return i;
  return -1;
}
static int add_ref(cbor_item_t* p) { /* the client received one more reference to p */
  if (!p) return -1;
  int s = slot_of(p);
  if (s >= 0) { H[s].crefs++; return s; }
  for (int i = 0; i < NH; i++) if (H[i].crefs == 0) { H[i].p = p; H[i].crefs = 1; return i; }
  return -1;
}
static int nfree_slots(void) { int n = 0; for (int i = 0; i < NH; i++) n += H[i].crefs == 0; return n; }
static int pick(int (*pred)(const cbor_item_t*)) {
  int c[NH], n = 0;
  for (int i = 0; i < NH; i++) if (H[i].crefs > 0 && (!pred || pred(H[i].p))) c[n++] = i;
  return n ? c[vh_randn(n)] : -1;
}
static int is_arr(const cbor_item_t* p) { return cbor_isa_array(p); }
static int is_map(const cbor_item_t* p) { return cbor_isa_map(p); }
static int is_tag(const cbor_item_t* p) { return cbor_isa_tag(p); }
static int is_tag_set(const cbor_item_t* p) { return cbor_isa_tag(p) && p->metadata.tag_metadata.tagged_item; }
static int is_chunked(const cbor_item_t* p) { return (cbor_isa_bytestring(p) && cbor_bytestring_is_indefinite(p)) || (cbor_isa_string(p) && cbor_string_is_indefinite(p)); }
static int is_bchunk(const cbor_item_t* p) { return cbor_isa_bytestring(p) && cbor_bytestring_is_definite(p); }
static int is_tchunk(const cbor_item_t* p) { return cbor_isa_string(p) && cbor_string_is_definite(p); }

static void drop(int s) { /* client releases one reference of slot s */
  cbor_item_t* p = H[s].p;
  long id = id_of(p);
  op_begin();
  H[s].crefs--;
  long serial = va_block_id(p);
  if (vh_randn(2)) cbor_decref(&p); else { cbor_intermediate_decref(p); if (va_block_id(p) != serial) p = NULL; }
  op_end("Decref", id, 0, 0, 0, p ? id : 0);
}

static void history(int steps, int containers_only) {
  long live0 = va.live;
  memset(H, 0, sizeof H);
  ndense = 0;
  fprintf(vh_out, "{\"e\":\"Reset\"}\n");
  for (int st = 0; st < steps; st++) {
    int k = (int)vh_randn(containers_only ? 12 : 22);
    if (containers_only && vh_randn(12) == 0) k = 17; /* containers that come out of the decoder are extended and indexed like any other */
    int fs = nfree_slots();
    if (fs < 4 && k < 6) k = 20; /* table nearly full: release something instead of creating */
    switch (k) {
      case 0: case 1: { /* new leaf */
        cbor_item_t* it = NULL;
        op_begin();
        maybe_fault();
        switch (vh_randn(6)) {
          case 0: it = cbor_build_uint8((uint8_t)vh_rand()); break;
          case 1: it = cbor_build_negint32((uint32_t)vh_rand()); break;
          case 2: it = cbor_build_bytestring((const unsigned char*)"ab", vh_randn(3)); break;
          case 3: it = cbor_build_string(vh_randn(2) ? "x" : ""); break;
          case 4: it = cbor_build_float4(1.5f); break;
          default: it = cbor_build_bool(vh_randn(2)); break;
        }
        add_ref(it);
        op_end("NewLeaf", id_of(it), 0, 0, 0, id_of(it));
        break;
      }
      case 2: { /* new array */
        int def = (int)vh_randn(2);
        size_t cap = vh_randn(9);
        op_begin();
        maybe_fault();
        cbor_item_t* it = def ? cbor_new_definite_array(cap) : cbor_new_indefinite_array();
        add_ref(it);
        op_end("NewArr", id_of(it), 0, 0, 0, id_of(it));
        break;
      }
      case 3: {
        int def = (int)vh_randn(2);
        size_t cap = vh_randn(5);
        op_begin();
        maybe_fault();
        cbor_item_t* it = def ? cbor_new_definite_map(cap) : cbor_new_indefinite_map();
        add_ref(it);
        op_end("NewMap", id_of(it), 0, 0, 0, id_of(it));
        break;
      }
      case 4: {
        op_begin();
        maybe_fault();
        cbor_item_t* it = vh_randn(2) ? cbor_new_indefinite_bytestring() : cbor_new_indefinite_string();
        add_ref(it);
        op_end("NewChunked", id_of(it), 0, 0, 0, id_of(it));
        break;
      }
      case 5: {
        if (containers_only) break;
        op_begin();
        cbor_item_t* it = cbor_new_tag(vh_rand());
        add_ref(it);
        op_end("NewTag", id_of(it), 0, 0, 0, id_of(it));
        break;
      }
      case 6: case 7: { /* push / move-push */
        int a = pick(is_arr), x = pick(NULL);
        if (a < 0 || x < 0 || reaches(H[x].p, H[a].p)) break;
        cbor_item_t *A = H[a].p, *X = H[x].p;
        int will = cbor_array_is_indefinite(A) || cbor_array_size(A) < cbor_array_allocated(A);
        if (opt_inrange && !will) break;
        int mv = k == 7 && will && !containers_only;
        long ia = id_of(A), ix = id_of(X);
        op_begin();
        if (!mv) maybe_fault();
        bool ok;
        if (mv) { H[x].crefs--; ok = cbor_array_push(A, cbor_move(X)); }
        else ok = cbor_array_push(A, X);
        op_end(mv ? "MovePush" : "Push", ia, ix, 0, 0, ok);
        break;
      }
      case 8: { /* set / replace at any index from 0 to size+2 */
        int a = pick(is_arr), x = pick(NULL);
        if (a < 0 || x < 0 || reaches(H[x].p, H[a].p)) break;
        cbor_item_t *A = H[a].p, *X = H[x].p;
        int set = (int)vh_randn(2);
        size_t idx = vh_randn(cbor_array_size(A) + 3);
        if (opt_inrange) {
          int full = cbor_array_is_definite(A) && cbor_array_size(A) >= cbor_array_allocated(A);
          size_t lim = cbor_array_size(A) + (set && !full ? 1 : 0);
          if (lim == 0) break;
          idx = vh_randn(lim);
        }
        long ia = id_of(A), ix = id_of(X);
        op_begin();
        maybe_fault();
        bool ok = set ? cbor_array_set(A, idx, X) : cbor_array_replace(A, idx, X);
        op_end(set ? "Set" : "Replace", ia, ix, 0, (long)idx, ok);
        break;
      }
      case 9: { /* get at any index from 0 to size+2 */
        int a = pick(is_arr);
        if (a < 0 || fs < 1) break;
        cbor_item_t* A = H[a].p;
        size_t idx = vh_randn(cbor_array_size(A) + 3);
        if (opt_inrange) { if (cbor_array_size(A) == 0) break; idx = vh_randn(cbor_array_size(A)); }
        long ia = id_of(A);
        op_begin();
        cbor_item_t* r = cbor_array_get(A, idx);
        if (r) add_ref(r);
        op_end("Get", ia, 0, 0, (long)idx, id_of(r));
        break;
      }
      case 10: { /* map add */
        int m = pick(is_map), kk = pick(NULL), v = pick(NULL);
        if (m < 0 || kk < 0 || v < 0 || reaches(H[kk].p, H[m].p) || reaches(H[v].p, H[m].p)) break;
        if (opt_inrange && cbor_map_is_definite(H[m].p) && cbor_map_size(H[m].p) >= cbor_map_allocated(H[m].p)) break;
        long im = id_of(H[m].p), ik = id_of(H[kk].p), iv = id_of(H[v].p);
        op_begin();
        maybe_fault();
        bool ok = cbor_map_add(H[m].p, (struct cbor_pair){.key = H[kk].p, .value = H[v].p});
        op_end("MapAdd", im, ik, iv, 0, ok);
        break;
      }
      case 11: { /* add chunk */
        int s = pick(is_chunked);
        if (s < 0) break;
        int bs = cbor_isa_bytestring(H[s].p);
        int c = pick(bs ? is_bchunk : is_tchunk);
        if (c < 0) break;
        long is = id_of(H[s].p), ic = id_of(H[c].p);
        op_begin();
        maybe_fault();
        bool ok = bs ? cbor_bytestring_add_chunk(H[s].p, H[c].p) : cbor_string_add_chunk(H[s].p, H[c].p);
        op_end("AddChunk", is, ic, 0, 0, ok);
        break;
      }
      case 12: { /* tag set */
        int t = pick(is_tag), x = pick(NULL);
        if (t < 0 || x < 0 || reaches(H[x].p, H[t].p)) break;
        cbor_item_t* old = H[t].p->metadata.tag_metadata.tagged_item;
        if (old && fs < 1) break;
        long it = id_of(H[t].p), ix = id_of(H[x].p);
        op_begin();
        cbor_tag_set_item(H[t].p, H[x].p);
        if (old) add_ref(old); /* tags.h: the previous item's reference is now the client's */
        op_end("TagSet", it, ix, 0, 0, 1);
        break;
      }
      case 13: {
        int t = pick(is_tag_set);
        if (t < 0 || fs < 1) break;
        long it = id_of(H[t].p);
        op_begin();
        cbor_item_t* r = cbor_tag_item(H[t].p);
        add_ref(r);
        op_end("TagGet", it, 0, 0, 0, id_of(r));
        break;
      }
      case 14: {
        int x = pick(NULL);
        if (x < 0 || fs < 1) break;
        long ix = id_of(H[x].p);
        op_begin();
        maybe_fault();
        cbor_item_t* r = cbor_build_tag(vh_rand(), H[x].p);
        add_ref(r);
        op_end("BuildTag", id_of(r), ix, 0, 0, id_of(r));
        break;
      }
      case 15: {
        int x = pick(NULL);
        if (x < 0) break;
        op_begin();
        cbor_item_t* r = cbor_incref(H[x].p);
        H[x].crefs++;
        op_end("Incref", id_of(r), 0, 0, 0, id_of(r));
        break;
      }
      case 16: { /* copy */
        int x = pick(NULL);
        if (x < 0 || fs < 1 || !complete(H[x].p) || vt_nodes(H[x].p) > 40) break;
        long ix = id_of(H[x].p);
        op_begin();
        maybe_fault();
        cbor_item_t* r = cbor_copy(H[x].p);
        add_ref(r);
        op_end("Copy", ix, 0, 0, 0, id_of(r));
        break;
      }
      case 17: { /* load */
        if (fs < 1) break;
        static unsigned char buf[4096];
        size_t n = vg_encoding(buf, 512, 2);
        /* one load in three is of a corrupted encoding: whatever the decoder built before it gave up must be released */
        if (vh_randn(3) == 0 && n > 0) {
          static const unsigned char junk[] = {0xff, 0x5f, 0x7f, 0x9f, 0xbf, 0xc1, 0x1c, 0x41, 0x61, 0x80, 0xa0, 0x00};
          size_t at = vh_randn(n);
          switch (vh_randn(4)) {
            case 0: buf[at] = junk[vh_randn(sizeof junk)]; break;
            case 1: memmove(buf + at + 1, buf + at, n - at); buf[at] = junk[vh_randn(sizeof junk)]; n++; break;
            case 2: n = at; break;
            default: memmove(buf + at, buf + at + 1, n - at - 1); n--; break;
          }
        }
        /* now and then an encoding nested just beyond the decoder's limit: refused, and every frame and item built so far released */
        if (vh_randn(8) == 0 && (size_t)CBOR_MAX_STACK_SIZE + 8 < sizeof buf) {
          static const unsigned char openers[] = {0x81, 0x9f, 0xc1, 0xa1, 0xd8};
          size_t depth = (size_t)CBOR_MAX_STACK_SIZE + 1 + vh_randn(3);
          n = 0;
          for (size_t d = 0; d < depth && n + 3 < sizeof buf; d++) {
            unsigned char o = openers[vh_randn(sizeof openers)];
            buf[n++] = o;
            if (o == 0xd8) buf[n++] = 0x20; /* tag with a one-byte number */
          }
          buf[n++] = 0x00;
        }
        struct cbor_load_result r;
        op_begin();
        maybe_fault();
        cbor_item_t* it = cbor_load(buf, n, &r);
        if (it) add_ref(it);
        op_end("Load", 0, 0, 0, 0, id_of(it));
        break;
      }
      case 18: { /* serialize: pure with respect to the heap, whether or not the buffer is large enough */
        int x = pick(NULL);
        if (x < 0 || !complete(H[x].p)) break;
        long ix = id_of(H[x].p);
        unsigned char* b = NULL;
        size_t bs = 0;
        op_begin();
        size_t w;
        if (vh_randn(2)) {
          w = cbor_serialize_alloc(H[x].p, &b, &bs);
          if (b) va_free(b);
        } else {
          /* a fixed buffer of every size from 0 to the full size: the usual "try a small buffer first" pattern */
          static unsigned char fixed[1 << 16];
          size_t full = cbor_serialized_size(H[x].p);
          size_t n = full < sizeof fixed ? vh_randn(full + 1) : sizeof fixed;
          w = cbor_serialize(H[x].p, fixed, n);
          if (n < full) w = 1; /* (refusal is the correct answer there; the heap must be untouched either way) */
        }
        op_end("Serialize", ix, 0, 0, 0, w > 0);
        break;
      }
      default: { /* release */
        int x = pick(NULL);
        if (x >= 0) drop(x);
        break;
      }
    }
  }
  /* the client drops all of its references */
  for (int i = 0; i < NH; i++) while (H[i].crefs > 0) drop(i);
  fprintf(vh_out, "{\"e\":\"end\",\"live\":%ld,\"foreign\":%ld}\n", va.live - live0, va.foreign_free + va.foreign_realloc);
  nhist++;
}


/* A-direction: execute a history generated by TLC from the specification (spec/Sim_Items.tla); ids in the script are the
 * specification's pool ids; M binds them to real items whenever the client receives a reference */
static void script_history(char* line) {
  long live0 = va.live;
  cbor_item_t* M[64] = {0};
  memset(H, 0, sizeof H);
  ndense = 0;
  fprintf(vh_out, "{\"e\":\"Reset\"}\n");
  for (char* op = strtok(line, ";"); op; op = strtok(NULL, ";")) {
    char name[32], sub[16] = "";
    long a0 = 0, a1 = 0, a2 = 0, idx = 0, ret = 0, def = 1, cap = 0;
    if (sscanf(op, " %31s %ld %ld %ld %ld %ld %ld %ld %15s", name, &a0, &a1, &a2, &idx, &ret, &def, &cap, sub) < 8) continue;
    if (a0 < 0 || a0 > 63 || a1 < 0 || a1 > 63 || a2 < 0 || a2 > 63 || ret < 0 || ret > 63) continue;
    cbor_item_t *A = M[a0], *B = M[a1], *C = M[a2];
    op_begin();
    if (!strncmp(name, "New", 3)) {
      cbor_item_t* it = NULL;
      if (!strcmp(name, "NewLeaf")) it = !strcmp(sub, "int") ? cbor_build_uint8(7) : !strcmp(sub, "bstr") ? cbor_build_bytestring((const unsigned char*)"ab", 2) : cbor_build_string("x");
      else if (!strcmp(name, "NewArr")) it = def ? cbor_new_definite_array((size_t)cap) : cbor_new_indefinite_array();
      else if (!strcmp(name, "NewMap")) it = def ? cbor_new_definite_map((size_t)cap) : cbor_new_indefinite_map();
      else if (!strcmp(name, "NewTag")) it = cbor_new_tag(42);
      else it = !strcmp(sub, "bstr") ? cbor_new_indefinite_bytestring() : cbor_new_indefinite_string();
      add_ref(it);
      M[ret] = it;
      op_end(name, id_of(it), 0, 0, 0, id_of(it));
    } else if (!strcmp(name, "Push")) {
      long ia = id_of(A), ix = id_of(B);
      bool ok = cbor_array_push(A, B);
      op_end(name, ia, ix, 0, 0, ok);
    } else if (!strcmp(name, "MovePush")) {
      long ia = id_of(A), ix = id_of(B);
      H[slot_of(B)].crefs--;
      bool ok = cbor_array_push(A, cbor_move(B));
      op_end(name, ia, ix, 0, 0, ok);
    } else if (!strcmp(name, "Set") || !strcmp(name, "Replace")) {
      long ia = id_of(A), ix = id_of(B);
      bool ok = name[0] == 'S' ? cbor_array_set(A, (size_t)idx, B) : cbor_array_replace(A, (size_t)idx, B);
      op_end(name, ia, ix, 0, idx, ok);
    } else if (!strcmp(name, "Get")) {
      long ia = id_of(A);
      cbor_item_t* r = cbor_array_get(A, (size_t)idx);
      if (r) { add_ref(r); M[ret] = r; }
      op_end(name, ia, 0, 0, idx, id_of(r));
    } else if (!strcmp(name, "MapAdd")) {
      long im = id_of(A), ik = id_of(B), iv = id_of(C);
      bool ok = cbor_map_add(A, (struct cbor_pair){.key = B, .value = C});
      op_end(name, im, ik, iv, 0, ok);
    } else if (!strcmp(name, "AddChunk")) {
      long is = id_of(A), ic = id_of(B);
      bool ok = cbor_isa_bytestring(A) ? cbor_bytestring_add_chunk(A, B) : cbor_string_add_chunk(A, B);
      op_end(name, is, ic, 0, 0, ok);
    } else if (!strcmp(name, "TagSet")) {
      long it = id_of(A), ix = id_of(B);
      cbor_item_t* old = A->metadata.tag_metadata.tagged_item;
      cbor_tag_set_item(A, B);
      if (old) { add_ref(old); M[a2] = old; }
      op_end(name, it, ix, 0, 0, 1);
    } else if (!strcmp(name, "TagGet")) {
      long it = id_of(A);
      cbor_item_t* r = cbor_tag_item(A);
      add_ref(r);
      M[ret] = r;
      op_end(name, it, 0, 0, 0, id_of(r));
    } else if (!strcmp(name, "BuildTag")) {
      long ix = id_of(A);
      cbor_item_t* r = cbor_build_tag(42, A);
      add_ref(r);
      M[ret] = r;
      op_end(name, id_of(r), ix, 0, 0, id_of(r));
    } else if (!strcmp(name, "Incref")) {
      cbor_item_t* r = cbor_incref(A);
      H[slot_of(A)].crefs++;
      op_end(name, id_of(r), 0, 0, 0, id_of(r));
    } else if (!strcmp(name, "Decref")) {
      drop(slot_of(A));
    } else if (!strcmp(name, "Copy")) {
      long ix = id_of(A);
      cbor_item_t* r = cbor_copy(A);
      add_ref(r);
      M[ret] = r;
      op_end(name, ix, 0, 0, 0, id_of(r));
    }
  }
  for (int i = 0; i < NH; i++) while (H[i].crefs > 0) drop(i);
  fprintf(vh_out, "{\"e\":\"end\",\"live\":%ld,\"foreign\":%ld}\n", va.live - live0, va.foreign_free + va.foreign_realloc);
  nhist++;
}


/* C12 growth clause: n insertions into an indefinite container; capacity observed after every insertion */
static int grow_faulty; /* every growth step is first attempted with its allocation request refused */
static void grow_case(int kind, long n) {
  long live0 = va.live;
  cbor_item_t* leaf = kind == 2 ? cbor_build_bytestring((const unsigned char*)"z", 1) : kind == 3 ? cbor_build_string("z") : cbor_build_uint8(7);
  cbor_item_t* c = kind == 0 ? cbor_new_indefinite_array() : kind == 1 ? cbor_new_indefinite_map() : kind == 2 ? cbor_new_indefinite_bytestring() : cbor_new_indefinite_string();
  long r0 = va.reallocs, refused = 0, shrunk = 0, over = 0, under = 0, injected = 0, changed_on_refusal = 0;
  size_t cap = 0;
  fprintf(vh_out, "{\"e\":\"grow\",\"kind\":%d,\"n\":%ld,\"caps\":[", kind, n);
  int first = 1;
  for (long i = 0; i < n; i++) {
    bool ok;
    for (int attempt = 0; attempt < 2; attempt++) {
      size_t sz0 = kind == 0 ? cbor_array_size(c) : kind == 1 ? cbor_map_size(c) : nkids(c);
      size_t cap0 = kind == 0 ? cbor_array_allocated(c) : kind == 1 ? cbor_map_allocated(c) : ((struct cbor_indefinite_string_data*)c->data)->chunk_capacity;
      long ref0 = va.refused;
      if (grow_faulty && attempt == 0 && sz0 == cap0) { va_fault_mode = VA_ONLY; va_fault_k = va.requests; }
      ok = kind == 0 ? cbor_array_push(c, leaf) : kind == 1 ? cbor_map_add(c, (struct cbor_pair){.key = leaf, .value = leaf})
           : kind == 2 ? cbor_bytestring_add_chunk(c, leaf) : cbor_string_add_chunk(c, leaf);
      va_fault_mode = VA_NONE;
      if (va.refused > ref0) injected++;
      if (ok) break;
      refused++;
      /* a refused insertion changes nothing */
      size_t sz1 = kind == 0 ? cbor_array_size(c) : kind == 1 ? cbor_map_size(c) : nkids(c);
      size_t cap1 = kind == 0 ? cbor_array_allocated(c) : kind == 1 ? cbor_map_allocated(c) : ((struct cbor_indefinite_string_data*)c->data)->chunk_capacity;
      if (sz1 != sz0 || cap1 != cap0) changed_on_refusal++;
      if (va.refused == ref0) break; /* refused without any injected fault: do not insist */
    }
    {
      /* the block behind the container really has room for the capacity it records */
      const void* blk = kind <= 1 ? (const void*)c->data : (const void*)((struct cbor_indefinite_string_data*)c->data)->chunks;
      size_t capn = kind == 0 ? cbor_array_allocated(c) : kind == 1 ? cbor_map_allocated(c) : ((struct cbor_indefinite_string_data*)c->data)->chunk_capacity;
      size_t elem = kind == 1 ? sizeof(struct cbor_pair) : sizeof(cbor_item_t*);
      /* (only when the container's buffer is a block of its own: a representation that embeds it elsewhere is not judged here) */
      if (capn > 0 && blk && va_block_size(blk) != (size_t)-1 && va_block_size(blk) < capn * elem) under++;
    }
    size_t nc = kind == 0 ? cbor_array_allocated(c) : kind == 1 ? cbor_map_allocated(c) : ((struct cbor_indefinite_string_data*)c->data)->chunk_capacity;
    size_t sz = kind == 0 ? cbor_array_size(c) : kind == 1 ? cbor_map_size(c) : nkids(c);
    if (nc < cap) shrunk++;
    if (sz > nc) over++;
    if (nc != cap) { fprintf(vh_out, "%s[%zu,%zu]", first ? "" : ",", sz, nc); first = 0; cap = nc; }
  }
  size_t sz = kind == 0 ? cbor_array_size(c) : kind == 1 ? cbor_map_size(c) : nkids(c);
  long wrong = 0;
  for (size_t k = 0; k < nkids(c); k++) if (kid(c, k) != leaf) wrong++;
  fprintf(vh_out, "],\"size\":%zu,\"reallocs\":%ld,\"refused\":%ld,\"injected\":%ld,\"under\":%ld,\"changed_on_refusal\":%ld,\"shrunk\":%ld,\"over\":%ld,\"wrong\":%ld,\"leaf_rc\":%zu", sz,
          va.reallocs - r0, refused, injected, under, changed_on_refusal, shrunk, over, wrong, cbor_refcount(leaf));
  cbor_decref(&c);
  fprintf(vh_out, ",\"leaf_rc_after\":%zu", cbor_refcount(leaf));
  cbor_decref(&leaf);
  fprintf(vh_out, ",\"live\":%ld}\n", va.live - live0);
}

static void on_signal(int sig) { fprintf(stderr, "\nCURRENT-CASE %s idx=%ld history %ld\n", sig == SIGALRM ? "hang" : "abort", nops, nhist); fflush(stdout); _exit(78); }
static void on_death(void) { fprintf(stderr, "\nCURRENT-CASE sanitizer idx=%ld history %ld\n", nops, nhist); fflush(stdout); }
#if defined(__has_feature)
#if __has_feature(address_sanitizer)
void __sanitizer_set_death_callback(void (*)(void));
#define HAVE_SAN 1
#endif
#endif

int main(int argc, char** argv) {
  if (argc < 4) return 2;
  va_install();
#ifdef HAVE_SAN
  __sanitizer_set_death_callback(on_death);
#endif
  (void)on_death;
  signal(SIGABRT, on_signal);
  vg_share = 0;
  if (!strcmp(argv[1], "grow")) {
    long n = atol(argv[2]);
    /* definite containers preallocated for counts whose byte size does not fit: refused, or really that large */
    {
      static const uint64_t huge[] = {(1ull << 59) + 1, 1ull << 60, (1ull << 60) + 2, (1ull << 61) + 1, (1ull << 62) + 3, (1ull << 63) + 1, ~0ull - 1, ~0ull};
      va_cap = (size_t)64 << 20;
      for (unsigned hi = 0; hi < sizeof huge / sizeof *huge; hi++)
        for (int kind = 0; kind < 2; kind++) {
          long live0 = va.live;
          cbor_item_t* c = kind == 0 ? cbor_new_definite_array((size_t)huge[hi]) : cbor_new_definite_map((size_t)huge[hi]);
          size_t elem = kind == 0 ? sizeof(cbor_item_t*) : sizeof(struct cbor_pair);
          int under = 0;
          size_t cap = 0;
          if (c) {
            cap = kind == 0 ? cbor_array_allocated(c) : cbor_map_allocated(c);
            size_t bsz = c->data ? va_block_size(c->data) : 0;
            if (bsz != (size_t)-1 && (cap > SIZE_MAX / elem || bsz < cap * elem)) under = 1; /* the block cannot hold what the container says it can */
            cbor_decref(&c);
          }
          fprintf(vh_out, "{\"e\":\"hugecap\",\"kind\":%d,\"n\":", kind);
          vh_u64(huge[hi]);
          fprintf(vh_out, ",\"ok\":%s,\"cap_is_n\":%s,\"under\":%s,\"live\":%ld}\n", c || cap ? "true" : "false", cap == (size_t)huge[hi] ? "true" : "false", under ? "true" : "false", va.live - live0);
        }
    }
    for (int kind = 0; kind < 4; kind++) {
      grow_case(kind, n);
      grow_case(kind, 1 + (long)vh_randn(n));
      for (long m = 0; m <= 17; m++) grow_case(kind, m);
      /* the same with every growth step refused once before it is allowed: the refused insertion changes nothing, the next one grows */
      grow_faulty = 1;
      grow_case(kind, n < 5000 ? n : 5000);
      grow_case(kind, 17);
      grow_faulty = 0;
    }
  } else if (!strcmp(argv[1], "script")) {
    FILE* f = fopen(argv[2], "r");
    if (!f) return 2;
    static char line[1 << 16];
    while (fgets(line, sizeof line, f)) script_history(line);
    fclose(f);
  } else {
    long hs = atol(argv[2]);
    int steps = atoi(argv[3]);
    int cont = 0;
    for (int i = 4; i < argc; i++) {
      if (!strcmp(argv[i], "containers")) cont = 1;
      if (!strcmp(argv[i], "inrange")) opt_inrange = 1;
    }
    for (long i = 0; i < hs; i++) history(steps, cont);
  }
  fflush(vh_out);
  fprintf(stderr, "h_items: histories=%ld ops=%ld\n", nhist, nops);
  return 0;
}
