/* Common harness support: ndjson emission, instrumenting allocator, recording callbacks. */
#ifndef VH_H
#define VH_H
#include <stdbool.h>
#include <stddef.h>
#include <stdint.h>
#include <stdio.h>
#include <stdlib.h>
#include <string.h>

#include "cbor.h"

/* ---------- output ---------- */
extern FILE* vh_out;
void vh_bytes(const unsigned char* p, size_t n);          /* [1,2,3] */
void vh_u64(uint64_t v);                                  /* 8 bytes big endian as JSON array */
void vh_kbytes(const char* key, const unsigned char* p, size_t n); /* ,"key":[...] */
void vh_ku64(const char* key, uint64_t v);
void vh_kint(const char* key, long long v);
void vh_kstr(const char* key, const char* v);
void vh_kbool(const char* key, bool v);

/* ---------- exactly-sized input windows at every alignment ----------
 * returns a pointer to n bytes whose END is flush with the end of a heap block (sanitizer red zone right behind) and
 * whose START address is `align` (0..15) modulo 16; *blk receives the block to free. vh_exact_rot rotates through the
 * alignments 0..15 from call to call, so that code keyed on the address of its input is exercised at all of them. */
unsigned char* vh_exact(size_t n, unsigned align, unsigned char** blk);
unsigned char* vh_exact_rot(size_t n, unsigned char** blk);

/* ---------- deterministic PRNG (seeded from VERIF_SEED) ---------- */
extern uint64_t vh_rng_state;
uint64_t vh_rand(void);
static inline uint64_t vh_randn(uint64_t n) { return n ? vh_rand() % n : 0; }

/* ---------- instrumenting allocator (installed through the public cbor_set_allocs) ----------
 * Every block is registered; free/realloc of a pointer that is not a live block of this
 * allocator is recorded as a discipline violation instead of being passed to libc.
 * realloc always moves the block, so a stale pointer kept by the library is caught by ASan. */
enum { VA_NONE = 0, VA_ONLY = 1, VA_FROM = 2 };
struct va_stats {
  long mallocs, reallocs, frees, refused, foreign_free, foreign_realloc, free_null;
  long live;           /* live blocks */
  size_t live_bytes;
  long requests;       /* mallocs + reallocs, including refused ones */
};
extern struct va_stats va;
extern int va_fault_mode;      /* VA_NONE / VA_ONLY (refuse request k) / VA_FROM (refuse every request >= k) */
extern long va_fault_k;
extern size_t va_cap;          /* refuse requests above this size (0 = no cap) */
extern int va_log;             /* 1: append events to the event ring (see va_events_json) */
extern uint64_t va_last_req_size; /* size of the most recent request */
void va_install(void);
void va_reset_counters(void);  /* zero the counters (not the live set) */
void* va_malloc(size_t);
void* va_realloc(void*, size_t);
void va_free(void*);
bool va_is_live(const void* p);
size_t va_block_size(const void* p);
long va_block_id(const void* p); /* serial number of the live block at p, -1 if none */
/* event ring: compact record of allocator events since va_events_clear() */
void va_events_clear(void);
void va_events_json(const char* key); /* ,"key":[["M",id,size8],["R",old,new,size8],["F",id],["X",kind,size8]...] */
long va_events_count(void);

/* arena backing: blocks come from one mmap'ed region with no C library behind it (a stray libc free/realloc of such a
 * pointer aborts); the region can be write-protected as a whole */
void va_use_arena(size_t bytes);
void va_arena_protect(int readonly);
bool va_in_arena(const void* p);
void va_arena_reset(void);
void va_arena_pause(int on); /* while on, new blocks come from the C library instead (the arena may stay write-protected) */

/* set by the harness around library calls; direct libc allocator calls seen meanwhile are counted in vh_bypass (VH_WRAP builds) */
extern int vh_in_lib;
extern long vh_bypass;

/* ---------- recording callbacks for cbor_stream_decode ---------- */
struct vh_event {
  int calls;                /* total callbacks invoked */
  const char* slot;         /* name of the last slot invoked */
  unsigned char arg[8];     /* integer / length / float bits, big endian */
  int arglen;               /* number of valid bytes in arg (0 for no-arg callbacks) */
  const unsigned char* data; /* payload pointer for string callbacks */
  int ctx_bad;              /* a callback received a context other than the one given to cbor_stream_decode */
};
#define VH_CTX ((void*)&vh_ev) /* the context pointer the harnesses hand to cbor_stream_decode */
extern struct vh_event vh_ev;
extern const struct cbor_callbacks vh_recording_callbacks;
void vh_ev_clear(void);

#endif
