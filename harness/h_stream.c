/* C09 recorder: the documented incremental client around the real cbor_stream_decode.
 * usage: h_stream <COUNT> [maxlen]
 * For each seeded stream (concatenated well-formed items and raw head sequences) several fragmentations are run:
 * every single cut point (short streams), byte-at-a-time, random cuts. The arriving bytes are kept in an exactly-sized
 * heap block that is re-allocated on every arrival, so the decoder can never look past what has arrived. */
#include "h_gen.h"

static long ncalls, nruns;

static void run_client(const unsigned char* s, size_t n, const size_t* cuts, int ncuts) {
  /* cuts: increasing arrival points (number of bytes arrived after each arrival), last = n */
  fputs("{\"e\":\"stream\",\"bytes\":", vh_out);
  vh_bytes(s, n);
  fputs("}\n", vh_out);
  size_t arrived = 0, consumed = 0, wait = 0;
  int ci = 0, stopped = 0;
  long guard = 0;
  long delivered = 0;
  for (;;) {
    size_t buffered = arrived - consumed;
    int can_call = !stopped && buffered >= wait && (buffered > 0 || wait == 0);
    if (can_call) {
      unsigned char* blk;
      unsigned char* win = vh_exact_rot(buffered, &blk); /* a client may keep its unconsumed bytes at any address */
      memcpy(win, s + consumed, buffered);
      vh_ev_clear();
      va_reset_counters();
      struct cbor_decoder_result r = cbor_stream_decode(win, buffered, &vh_recording_callbacks, VH_CTX);
      fprintf(vh_out, "{\"e\":\"call\",\"buffered\":%zu", buffered);
      vh_kbytes("win", win, buffered < 10 ? buffered : 10);
      vh_kstr("st", r.status == CBOR_DECODER_FINISHED ? "fin" : r.status == CBOR_DECODER_NEDATA ? "nedata" : "error");
      vh_kint("read", (long long)r.read);
      vh_ku64("req", r.required);
      vh_kint("calls", vh_ev.calls);
  vh_kbool("ctx", !vh_ev.ctx_bad);
      vh_kstr("slot", vh_ev.slot);
      vh_kbytes("arg", vh_ev.arg, vh_ev.arglen);
      vh_kint("off", vh_ev.data ? (long long)(vh_ev.data - win) : 0);
      vh_kint("allocs", va.requests + va.frees);
      fputs("}\n", vh_out);
      ncalls++;
      free(blk);
      if (r.status == CBOR_DECODER_FINISHED) { consumed += r.read; wait = 0; delivered++; }
      else if (r.status == CBOR_DECODER_NEDATA) wait = r.required;
      else stopped = 1;
      if (++guard > 4 * (long)n + 64) { fprintf(vh_out, "{\"e\":\"livelock\"}\n"); break; } /* every call either consumes bytes or follows an arrival */
      continue;
    }
    if (ci < ncuts) {
      size_t k = cuts[ci++] - arrived;
      if (k == 0) continue;
      arrived += k;
      fprintf(vh_out, "{\"e\":\"arrive\",\"k\":%zu}\n", k);
      continue;
    }
    break;
  }
  fprintf(vh_out, "{\"e\":\"end\",\"delivered\":%ld,\"consumed\":%zu,\"wait\":%zu,\"stopped\":%s}\n", delivered, consumed, wait, stopped ? "true" : "false");
  nruns++;
}

int main(int argc, char** argv) {
  if (argc < 2) return 2;
  long count = atol(argv[1]);
  size_t maxlen = argc > 2 ? (size_t)atol(argv[2]) : 600;
  va_install();
  static unsigned char s[1 << 17];
  static size_t cuts[1 << 17];
  for (long i = 0; i < count; i++) {
    size_t n = 0;
    int items = 1 + (int)vh_randn(6);
    for (int k = 0; k < items && n < maxlen; k++) {
      if (vh_randn(4) == 0) { /* raw heads: structural bytes, breaks, string starts */
        static const unsigned char raw[] = {0x5f, 0x7f, 0x9f, 0xbf, 0xff, 0xc1, 0x82, 0xa1, 0xf6, 0x40, 0x60};
        s[n++] = raw[vh_randn(sizeof raw)];
      } else
        n += vg_encoding(s + n, 300, (int)vh_randn(3));
    }
    if (i % 9 == 4 && n > 1) n -= 1 + vh_randn(n < 6 ? n - 1 : 5);     /* ends inside an item */
    if (i % 13 == 5) s[n++] = 0x1c;                                    /* reserved byte: ERROR stops the client */
    if (i % 17 == 6) { static const unsigned char big[] = {0x5b, 0xff, 0xff, 0xff, 0xff, 0xff, 0xff, 0xff, 0xff, 1, 2, 3}; memcpy(s + n, big, sizeof big); n += sizeof big; }
    if (i % 5 == 2) {
      /* the stream ends with a definite string that declares a length around a power of two / near the top of its width (never satisfied) */
      static const uint64_t lens4[] = {0xFFFFFFFFull, 0xFFFFFFFEull, 0xFFFFFFFDull, 0xFFFFFFFCull, 0xFFFFFFFBull, 0xFFFFFFF7ull, 0xFFFFFFF0ull, 0x80000000ull, 0x7FFFFFFFull, 0x7FFFFFFBull, 0x01000000ull, 0x00010000ull};
      static const uint64_t lens8[] = {~0ull, ~0ull - 1, ~0ull - 4, ~0ull - 8, ~0ull - 9, ~0ull - 10, ~0ull - 16, 0x8000000000000000ull, 0x7FFFFFFFFFFFFFFFull, 0x7FFFFFFFFFFFFFF7ull, 0x100000000ull, 0xFFFFFFFFull, 0x100000001ull, 0x0000000100000000ull - 5, 0x00000001FFFFFFFFull, 0xFFFFFFFF00000000ull};
      int w8 = (int)vh_randn(2);
      uint64_t v = w8 ? lens8[vh_randn(sizeof lens8 / sizeof *lens8)] : lens4[vh_randn(sizeof lens4 / sizeof *lens4)];
      s[n++] = (unsigned char)((vh_randn(2) ? 0x40 : 0x60) | (w8 ? 27 : 26));
      for (int b = (w8 ? 7 : 3); b >= 0; b--) s[n++] = (unsigned char)(v >> (8 * b));
      for (size_t extra = vh_randn(13); extra > 0; extra--) s[n++] = (unsigned char)vh_rand();
    }
    /* all at once */
    cuts[0] = n;
    run_client(s, n, cuts, 1);
    /* byte at a time */
    for (size_t k = 0; k < n; k++) cuts[k] = k + 1;
    run_client(s, n, cuts, (int)n);
    /* every single cut point (short streams) or a sample of them */
    for (size_t c = 1; c < n; c += (n <= 40 ? 1 : 1 + vh_randn(n / 8 + 1))) {
      cuts[0] = c; cuts[1] = n;
      run_client(s, n, cuts, 2);
    }
    /* random cuts */
    for (int rep = 0; rep < 3; rep++) {
      int nc = 0;
      size_t at = 0;
      while (at < n) { at += 1 + vh_randn(rep == 0 ? 3 : 17); if (at > n) at = n; cuts[nc++] = at; }
      run_client(s, n, cuts, nc);
    }
  }
  fflush(vh_out);
  fprintf(stderr, "h_stream: runs=%ld calls=%ld\n", nruns, ncalls);
  return 0;
}
