/* C20 at 64 bits: the compiled guard functions on a dense boundary grid, and declared counts / lengths around
 * 2^61..2^64 through the public API with a size-recording, capped allocator. */
#include "cbor/internal/memory_utils.h"
#include "vh.h"

static void b8(const char* k, uint64_t v) { vh_ku64(k, v); }

static void mu(uint64_t a, uint64_t b) {
  bool mul = _cbor_safe_to_multiply(a, b), add = _cbor_safe_to_add(a, b);
  uint64_t sig = _cbor_safe_signaling_add(a, b);
  va_reset_counters();
  long r0 = va.requests;
  void* ar = _cbor_alloc_multiple(a, b);
  int acalled = va.requests > r0;
  uint64_t areq = va_last_req_size;
  if (ar) va_free(ar);
  void* base = va_malloc(1);
  r0 = va.requests;
  void* rr = _cbor_realloc_multiple(base, a, b);
  int rcalled = va.requests > r0;
  uint64_t rreq = va_last_req_size;
  va_free(rr ? rr : base);
  fprintf(vh_out, "{\"e\":\"mu\",\"W\":64");
  b8("a", a); b8("b", b);
  vh_kbool("mul", mul); vh_kbool("add", add);
  b8("sig", sig);
  vh_kbool("acalled", acalled); vh_kbool("aret", ar != NULL); b8("areq", acalled ? areq : 0);
  vh_kbool("rcalled", rcalled); vh_kbool("rret", rr != NULL); b8("rreq", rcalled ? rreq : 0);
  fputs("}\n", vh_out);
}

static void e2e(const char* op, uint64_t n, uint64_t s, int ok, int called, uint64_t req) {
  fprintf(vh_out, "{\"e\":\"e2e\",\"op\":\"%s\"", op);
  b8("n", n); b8("s", s); vh_kbool("ok", ok); vh_kbool("called", called); b8("req", req);
  fputs("}\n", vh_out);
}

int main(int argc, char** argv) {
  int thorough = argc > 1 && !strcmp(argv[1], "thorough");
  va_install();
  va_cap = (size_t)64 << 20;
  static uint64_t g[800];
  int n = 0;
  g[n++] = 0;
  for (int k = 0; k < 64; k++) for (int d = -1; d <= 1; d++) g[n++] = ((uint64_t)1 << k) + (uint64_t)d;
  g[n++] = ~0ull; g[n++] = ~0ull - 1; g[n++] = 0xffffffffull; g[n++] = 0x100000000ull; g[n++] = 3037000499ull; g[n++] = 3037000500ull;
  g[n++] = 4294967295ull * 2; g[n++] = 6074000999ull; g[n++] = 0x5555555555555555ull; g[n++] = 0xaaaaaaaaaaaaaaaaull;
  for (int k = 0; k < (thorough ? 300 : 10); k++) g[n++] = vh_rand() >> vh_randn(64);
  for (int i = 0; i < n; i++) for (int j = 0; j < n; j++) mu(g[i], g[j]);
  /* end to end: element counts through the public constructors and the decoder */
  static const uint64_t counts[] = {0, 1, 7, 1ull << 20, (1ull << 23) - 1, 1ull << 23, (1ull << 32), (1ull << 59), (1ull << 60) - 1, 1ull << 60, (1ull << 60) + 1,
                                    (1ull << 61) - 1, 1ull << 61, (1ull << 61) + 1, (1ull << 62) - 1, 1ull << 62, (1ull << 63) - 1, 1ull << 63, (1ull << 63) + 1, ~0ull - 1, ~0ull,
                                    0x1000000000000001ull, 0x2000000000000001ull, 0x8000000000000001ull};
  for (unsigned i = 0; i < sizeof counts / sizeof *counts; i++) {
    uint64_t c = counts[i];
    long r0;
    /* cbor_new_definite_array: item, then c pointers */
    va_reset_counters(); r0 = va.requests;
    cbor_item_t* a = cbor_new_definite_array(c);
    e2e("new_definite_array", c, sizeof(cbor_item_t*), a != NULL, va.requests - r0 >= 2, va.requests - r0 >= 2 ? va_last_req_size : 0);
    if (a) cbor_decref(&a);
    va_reset_counters(); r0 = va.requests;
    cbor_item_t* m = cbor_new_definite_map(c);
    e2e("new_definite_map", c, sizeof(struct cbor_pair), m != NULL, va.requests - r0 >= 2, va.requests - r0 >= 2 ? va_last_req_size : 0);
    if (m) cbor_decref(&m);
    /* the decoder: an array / map head declaring c entries, a byte / text string head declaring c bytes */
    for (int mt = 2; mt <= 5; mt++) {
      unsigned char in[9] = {(unsigned char)(mt << 5 | 27)};
      for (int k = 0; k < 8; k++) in[1 + k] = (unsigned char)(c >> (56 - 8 * k));
      struct cbor_load_result r;
      va_reset_counters(); r0 = va.requests;
      cbor_item_t* it = cbor_load(in, 9, &r);
      /* nothing may be accepted here (no payload / members follow); what matters is that no under-sized block was requested and used */
      fprintf(vh_out, "{\"e\":\"e2e\",\"op\":\"load_mt%d\"", mt);
      b8("n", c); b8("s", mt == 4 ? sizeof(cbor_item_t*) : mt == 5 ? sizeof(struct cbor_pair) : 1);
      vh_kbool("ok", it != NULL && c != 0); vh_kbool("called", va.requests > r0); b8("req", va_last_req_size);
      fputs("}\n", vh_out);
      if (it) cbor_decref(&it);
    }
    /* growth: a container whose recorded capacity is c and which is full */
    if (c >= 1) {
      for (int kind = 0; kind < 3; kind++) {
        cbor_item_t* cont = kind == 0 ? cbor_new_indefinite_array() : kind == 1 ? cbor_new_indefinite_map() : cbor_new_indefinite_string();
        cbor_item_t* x = kind == 2 ? cbor_build_string("x") : cbor_build_uint8(1);
        /* one real element so that a (refused) growth attempt has a live block to work on */
        if (kind == 0) (void)cbor_array_push(cont, x);
        else if (kind == 1) (void)cbor_map_add(cont, (struct cbor_pair){.key = x, .value = x});
        else (void)cbor_string_add_chunk(cont, x);
        size_t *capp, *sizep;
        if (kind == 0) { capp = &cont->metadata.array_metadata.allocated; sizep = &cont->metadata.array_metadata.end_ptr; }
        else if (kind == 1) { capp = &cont->metadata.map_metadata.allocated; sizep = &cont->metadata.map_metadata.end_ptr; }
        else { capp = &((struct cbor_indefinite_string_data*)cont->data)->chunk_capacity; sizep = &((struct cbor_indefinite_string_data*)cont->data)->chunk_count; }
        size_t realcap = *capp, realsize = *sizep;
        *capp = (size_t)c; *sizep = (size_t)c;            /* pretend it holds c entries */
        va_reset_counters(); r0 = va.requests;
        bool ok = kind == 0 ? cbor_array_push(cont, x) : kind == 1 ? cbor_map_add(cont, (struct cbor_pair){.key = x, .value = x}) : cbor_string_add_chunk(cont, x);
        size_t newcap = *capp;
        fprintf(vh_out, "{\"e\":\"grow\",\"kind\":%d", kind);
        b8("cap", c); b8("s", kind == 1 ? sizeof(struct cbor_pair) : sizeof(cbor_item_t*)); vh_kbool("ok", ok); b8("newcap", newcap);
        vh_kbool("called", va.requests > r0); b8("req", va_last_req_size);
        fputs("}\n", vh_out);
        if (ok) { /* undo the extra reference taken on x by the successful insertion into fantasy space */ x->refcount -= (kind == 1 ? 2 : 1); }
        *capp = ok ? realcap : realcap; *sizep = realsize;
        if (ok && kind != 2) { /* the block was really grown by the capped allocator: keep its true capacity consistent */ *capp = realsize; }
        if (ok && kind == 2) *capp = realsize;
        cbor_decref(&cont);
        cbor_decref(&x);
      }
    }
  }
  /* lengths at the top of the range, where head + length wraps: the streaming decoder must not report a string as present,
   * and the serializer must not report a definite string as fitting, on the strength of a wrapped sum */
  for (int k = 0; k <= 24; k++) {
    uint64_t c = ~0ull - (uint64_t)k;
    for (int mt = 2; mt <= 3; mt++) {
      static const size_t wins[] = {9, 10, 16, 17, 24, 33};
      for (unsigned wi = 0; wi < sizeof wins / sizeof *wins; wi++) {
        unsigned char* blk;
        unsigned char* w = vh_exact_rot(wins[wi], &blk);
        memset(w, 0x61, wins[wi]);
        w[0] = (unsigned char)(mt << 5 | 27);
        for (int b = 0; b < 8; b++) w[1 + b] = (unsigned char)(c >> (56 - 8 * b));
        vh_ev_clear();
        struct cbor_decoder_result d = cbor_stream_decode(w, wins[wi], &vh_recording_callbacks, VH_CTX);
        fprintf(vh_out, "{\"e\":\"claim\",\"mt\":%d", mt);
        b8("n", c); b8("win", wins[wi]);
        vh_kstr("st", d.status == CBOR_DECODER_FINISHED ? "fin" : d.status == CBOR_DECODER_NEDATA ? "nedata" : "error");
        b8("req", d.required); b8("read", d.read);
        vh_kint("calls", vh_ev.calls);
        fputs("}\n", vh_out);
        free(blk);
      }
      /* a definite string item claiming c bytes (16 real ones behind the handle), serialized into buffers that hold the head and then some */
      static const size_t bufs[] = {0, 8, 9, 10, 16, 64};
      for (unsigned bi = 0; bi < sizeof bufs / sizeof *bufs; bi++) {
        cbor_item_t* it = mt == 2 ? cbor_new_definite_bytestring() : cbor_new_definite_string();
        unsigned char* h = va_malloc(16);
        memset(h, 0xff, 16);
        if (mt == 2) cbor_bytestring_set_handle(it, h, (size_t)c);
        else { cbor_string_set_handle(it, h, 16); it->metadata.string_metadata.length = (size_t)c; } /* (set_handle would scan c bytes for code points) */
        unsigned char* oblk;
        unsigned char* ob = vh_exact_rot(bufs[bi], &oblk);
        size_t ret = cbor_serialize(it, ob, bufs[bi]);
        fprintf(vh_out, "{\"e\":\"serdef\",\"mt\":%d", mt);
        b8("n", c); b8("buf", bufs[bi]); b8("ret", ret); b8("size", cbor_serialized_size(it));
        /* cbor_serialize_alloc: asks the allocator for at least the serialized size, or for nothing (the capped allocator refuses it anyway) */
        {
          unsigned char* ab = NULL;
          size_t abs_ = 0;
          va_reset_counters();
          long rq0 = va.requests;
          size_t aw = cbor_serialize_alloc(it, &ab, &abs_);
          vh_kbool("acalled", va.requests > rq0); b8("areq", va.requests > rq0 ? va_last_req_size : 0); b8("aret", aw);
          if (ab) va_free(ab);
        }
        fputs("}\n", vh_out);
        free(oblk);
        if (mt == 2) cbor_bytestring_set_handle(it, h, 16); else it->metadata.string_metadata.length = 16;
        cbor_decref(&it);
      }
    }
  }
  /* the copying builders with lengths no allocator can satisfy: they ask for at least that many bytes (and are refused), or for nothing */
  for (int k = 0; k <= 3; k++)
    for (int which = 0; which < 2; which++) {
      static unsigned char src16[16] = "0123456789abcdef";
      uint64_t c = k == 3 ? (1ull << 63) : ~0ull - (uint64_t)k;
      va_reset_counters();
      long r0 = va.requests;
      cbor_item_t* it = which ? cbor_build_stringn((const char*)src16, (size_t)c) : cbor_build_bytestring(src16, (size_t)c);
      /* (the item header is the first request, the payload block the second) */
      e2e(which ? "build_stringn" : "build_bytestring", c, 1, it != NULL, va.requests - r0 >= 2, va.requests - r0 >= 2 ? va_last_req_size : 0);
      if (it) cbor_decref(&it);
    }
  /* serialized size of chunked strings whose chunks claim huge lengths (handles never dereferenced by the size function) */
  static const uint64_t lens[][3] = {{1ull << 62, 1ull << 62, 0}, {1ull << 63, 1ull << 63, 0}, {~0ull - 9, 1, 0}, {~0ull - 12, 1, 0}, {~0ull - 13, 1, 0}, {1ull << 63, (1ull << 63) - 20, 0},
                                     {1ull << 40, 1ull << 41, 1ull << 42}, {~0ull, 0, 0}, {~0ull - 9, 0, 0}, {5, 6, 7}, {0, 0, 0}, {1ull << 63, (1ull << 63) - 13, 1}};
  for (unsigned i = 0; i < sizeof lens / sizeof *lens; i++) {
    /* the same chunked string bare, and wrapped so that the overflow has to propagate through every container kind:
     * wrap = bytes the wrappers add around it */
    for (int wrapkind = 0; wrapkind < 9; wrapkind++) {
      cbor_item_t* s = cbor_new_indefinite_bytestring();
      cbor_item_t* ch[3];
      fputs("{\"e\":\"sersize\",\"lens\":[", vh_out);
      for (int k = 0; k < 3; k++) {
        ch[k] = cbor_new_definite_bytestring();
        cbor_bytestring_set_handle(ch[k], NULL, (size_t)lens[i][k]);
        (void)cbor_bytestring_add_chunk(s, ch[k]);
        if (k) fputc(',', vh_out);
        vh_u64(lens[i][k]);
      }
      fputs("]", vh_out);
      cbor_item_t* top = s;
      cbor_item_t* one = cbor_build_uint8(1);
      int wrap = 0, mult = 1;
      switch (wrapkind) {
        case 7: top = cbor_new_definite_map(1); (void)cbor_map_add(top, (struct cbor_pair){.key = s, .value = s}); wrap = 1; mult = 2; break;   /* a1 <s> <s>: key and value both huge */
        case 8: top = cbor_new_indefinite_array(); (void)cbor_array_push(top, s); (void)cbor_array_push(top, one); (void)cbor_array_push(top, s); wrap = 3; mult = 2; break; /* 9f <s> 01 <s> ff */
        case 0: top = cbor_incref(s); break;
        case 1: top = cbor_build_tag(1, s); wrap = 1; break;                                                   /* c1 <s> */
        case 2: { cbor_item_t* t = cbor_build_tag(1000, s); top = cbor_build_tag(2, t); cbor_decref(&t); wrap = 4; break; } /* c2 d9 03e8 <s> */
        case 3: top = cbor_new_definite_array(2); (void)cbor_array_push(top, one); (void)cbor_array_push(top, s); wrap = 2; break;       /* 82 01 <s> */
        case 4: top = cbor_new_indefinite_array(); (void)cbor_array_push(top, s); wrap = 2; break;                                         /* 9f <s> ff */
        case 5: top = cbor_new_definite_map(1); (void)cbor_map_add(top, (struct cbor_pair){.key = one, .value = s}); wrap = 2; break;      /* a1 01 <s> */
        default: { cbor_item_t* t = cbor_build_tag(7, s); top = cbor_new_indefinite_map(); (void)cbor_map_add(top, (struct cbor_pair){.key = t, .value = one}); cbor_decref(&t); wrap = 4; break; } /* bf c7 <s> 01 ff */
      }
      vh_kint("wrap", wrap);
      vh_kint("mult", mult);
      vh_kint("wrapkind", wrapkind);
      b8("size", cbor_serialized_size(top));
      fputs("}\n", vh_out);
      for (int k = 0; k < 3; k++) { cbor_bytestring_set_handle(ch[k], NULL, 0); cbor_decref(&ch[k]); }
      cbor_decref(&top);
      cbor_decref(&one);
      cbor_decref(&s);
    }
  }
  fflush(vh_out);
  return 0;
}
