/* Recorder for serialization, the fixed-buffer contract and copying (C03, C07, C11).
 * usage: h_ser [--sern] [--copy] [--noshare] <api|dec|hex> <COUNT|FILE>
 *   one "ser" line per tree (tree, size, serialize_alloc output, reload, re-serialization), optionally
 *   followed by "sern" lines (cbor_serialize into every buffer size 0..size+2) and a "copy" line. */
#include <signal.h>
#include <unistd.h>

#include "h_gen.h"
#include "h_tree.h"

static int opt_sern, opt_copy;
static long ncases;
static const char* cur_desc = "";
static char cur_hex[4200];

static void on_signal(int sig) {
  char b[128];
  int n = snprintf(b, sizeof b, "\nCURRENT-CASE %s idx=%ld %s ", sig == SIGALRM ? "hang" : "abort", ncases, cur_desc);
  if (write(2, b, n) < 0) {}
  if (write(2, cur_hex, strlen(cur_hex)) < 0) {}
  if (write(2, "\n", 1) < 0) {}
  fflush(stdout);
  _exit(sig == SIGALRM ? 77 : 78);
}
static void on_death(void) {
  fprintf(stderr, "\nCURRENT-CASE sanitizer idx=%ld %s %s\n", ncases, cur_desc, cur_hex);
  fflush(stdout);
}
#if defined(__has_feature)
#if __has_feature(address_sanitizer)
void __sanitizer_set_death_callback(void (*)(void));
#define HAVE_SAN 1
#endif
#endif

static void set_hex(const unsigned char* b, size_t n) {
  size_t k = 0;
  for (size_t i = 0; i < n && k + 2 < sizeof cur_hex; i++) k += snprintf(cur_hex + k, 3, "%02x", b[i]);
  cur_hex[k] = 0;
}

static void sern_lines(const cbor_item_t* item, size_t size, const unsigned char* ref) {
  size_t ns[80];
  int k = 0;
  if (size <= 48)
    for (size_t n = 0; n <= size + 2; n++) ns[k++] = n;
  else {
    size_t c[] = {0, 1, 2, size / 2, size - 2, size - 1, size, size + 1, size + 2, size + 17};
    for (int i = 0; i < 10; i++) ns[k++] = c[i];
  }
  { /* a caller that does not know how much room it has claims "unbounded": the result is still the size, and only `size` bytes are written */
    static const size_t claims[] = {SIZE_MAX, SIZE_MAX - 1, SIZE_MAX / 2 + 1, (size_t)1 << 47, (size_t)1 << 32};
    size_t worst = size;
    int over = 0;
    unsigned char lastout[48];
    memset(lastout, 0, sizeof lastout);
    for (unsigned ci = 0; ci < sizeof claims / sizeof *claims && size > 0 && size < (1 << 20); ci++) {
      unsigned char* f = malloc(size + 64);
      memset(f, 0xA5, size + 64);
      size_t r = cbor_serialize(item, f, claims[ci]);
      if (r != size) worst = r;
      for (size_t j = size; j < size + 64; j++) if (f[j] != 0xA5) over = 1;
      if (r == size && ref && memcmp(f, ref, size)) over = 1;
      if (size <= 48) memcpy(lastout, f, size);
      free(f);
    }
    fprintf(vh_out, "{\"e\":\"sern\",\"n\":%zu,\"ret\":%zu,\"ret2\":%zu,\"over\":%s", size + 1000, worst, worst, over ? "true" : "false");
    if (size <= 48 && worst == size && size > 0 && size < (1 << 20)) vh_kbytes("out", lastout, size); else fputs(",\"out\":[]", vh_out);
    fputs(",\"outsame\":true}\n", vh_out);
  }
  for (int i = 0; i < k; i++) {
    size_t n = ns[i];
    /* (a) framed buffer: sentinel before and after the n-byte window, to see writes outside it */
    size_t frame = 32;
    unsigned char* f = malloc(n + 2 * frame);
    memset(f, 0xA5, n + 2 * frame);
    size_t ret = cbor_serialize(item, f + frame, n);
    int over = 0;
    for (size_t j = 0; j < frame; j++)
      if (f[j] != 0xA5 || f[frame + n + j] != 0xA5) over = 1;
    /* (b) exactly-sized heap block: ASan red zone right behind it */
    unsigned char* e = malloc(n ? n : 1);
    size_t ret2 = cbor_serialize(item, n ? e : e + 1, n);
    int same = ret > 0 && ret <= n && ref ? memcmp(f + frame, ref, ret) == 0 : 1;
    /* (c) the public per-type entry point for this item's type: same contract, same bytes */
    {
      unsigned char* t = malloc(n ? n : 1);
      unsigned char* tb = n ? t : t + 1;
      size_t r3 = 0;
      switch (cbor_typeof(item)) {
        case CBOR_TYPE_UINT: r3 = cbor_serialize_uint(item, tb, n); break;
        case CBOR_TYPE_NEGINT: r3 = cbor_serialize_negint(item, tb, n); break;
        case CBOR_TYPE_BYTESTRING: r3 = cbor_serialize_bytestring(item, tb, n); break;
        case CBOR_TYPE_STRING: r3 = cbor_serialize_string(item, tb, n); break;
        case CBOR_TYPE_ARRAY: r3 = cbor_serialize_array(item, tb, n); break;
        case CBOR_TYPE_MAP: r3 = cbor_serialize_map(item, tb, n); break;
        case CBOR_TYPE_TAG: r3 = cbor_serialize_tag(item, tb, n); break;
        default: r3 = cbor_serialize_float_ctrl(item, tb, n); break;
      }
      if (r3 != ret2 || (r3 > 0 && r3 <= n && memcmp(tb, n ? e : e + 1, r3) != 0)) ret2 = r3 == ret2 ? ret2 + 1 : r3; /* any disagreement surfaces in ret2 */
      free(t);
    }
    fprintf(vh_out, "{\"e\":\"sern\",\"n\":%zu,\"ret\":%zu,\"ret2\":%zu,\"over\":%s", n, ret, ret2, over ? "true" : "false");
    if (size <= 48 && ret > 0 && ret <= n) vh_kbytes("out", f + frame, ret);
    else fprintf(vh_out, ",\"out\":[]");
    vh_kbool("outsame", same); /* for big trees the bytes are compared here instead of being logged */
    fputs("}\n", vh_out);
    free(f);
    free(e);
  }
}

static void copy_line(cbor_item_t* src, const unsigned char* ref, size_t size) {
  static const void* a1[1 << 14];
  static const void* a2[1 << 14];
  long rq0 = va.requests;
#if defined(__x86_64__) || defined(__i386__)
  /* the copy is made with the FPU in flush-to-zero / denormals-are-zero mode: copying moves bits, it does not compute */
  unsigned csr_saved = __builtin_ia32_stmxcsr();
  __builtin_ia32_ldmxcsr(csr_saved | 0x8040u);
#endif
  cbor_item_t* cp = cbor_copy(src);
#if defined(__x86_64__) || defined(__i386__)
  __builtin_ia32_ldmxcsr(csr_saved);
#endif
  long copy_requests = va.requests - rq0;
  fputs("{\"e\":\"copy\"", vh_out);
  vh_kbool("ok", cp != NULL);
  if (!cp) {
    fputs("}\n", vh_out);
    return;
  }
  vt_ktree("tree", cp);
  vt_ktree("src_after", src);
  size_t n1 = vt_addresses(src, a1, 1 << 14), n2 = vt_addresses(cp, a2, 1 << 14);
  long shared = 0;
  if (n1 <= (1 << 14) && n2 <= (1 << 14))
    for (size_t i = 0; i < n1; i++)
      for (size_t j = 0; j < n2; j++)
        if (a1[i] == a2[j]) shared++;
  vh_kint("shared", shared);
  unsigned char* b = NULL;
  size_t bs = 0;
  size_t w = cbor_serialize_alloc(cp, &b, &bs);
  vh_kbytes("bytes", b ? b : (const unsigned char*)"", b ? w : 0);
  if (b) va_free(b);
  /* modify the copy, then release it: the source must be unaffected (and still alive: ASan) */
  if (cbor_isa_array(cp) && cbor_array_is_indefinite(cp)) {
    cbor_item_t* x = cbor_build_uint8(42);
    if (x) { (void)cbor_array_push(cp, x); cbor_decref(&x); }
  } else if (cbor_isa_array(cp) && cbor_array_size(cp) > 0) {
    cbor_item_t* x = cbor_build_uint8(42);
    if (x) { (void)cbor_array_replace(cp, 0, x); cbor_decref(&x); }
  } else if (cbor_is_int(cp) && cbor_int_get_width(cp) == CBOR_INT_8) cbor_set_uint8(cp, (uint8_t)(cbor_get_uint8(cp) + 1));
  else if (cbor_isa_string(cp) && cbor_string_is_definite(cp) && cbor_string_length(cp) > 0) cbor_string_handle(cp)[0] ^= 0x20;
  else if (cbor_isa_bytestring(cp) && cbor_bytestring_is_definite(cp) && cbor_bytestring_length(cp) > 0) cbor_bytestring_handle(cp)[0] ^= 0xff;
  cbor_decref(&cp);
  b = NULL;
  w = cbor_serialize_alloc(src, &b, &bs);
  vh_kbytes("src_bytes_after", b ? b : (const unsigned char*)"", b ? w : 0);
  if (b) va_free(b);
  vt_ktree("src_final", src);
  /* the other way round: a second copy must survive the release of the source (done by the caller:
   * the caller releases src after this line; here we log the second copy after releasing a clone chain) */
  cbor_item_t* cp2 = cbor_copy(src);
  if (cp2) {
    cbor_item_t* cp3 = cbor_copy(cp2);
    cbor_decref(&cp2); /* cp3 must not depend on cp2 */
    if (cp3) {
      b = NULL;
      w = cbor_serialize_alloc(cp3, &b, &bs);
      vh_kbytes("cp3_bytes", b ? b : (const unsigned char*)"", b ? w : 0);
      if (b) va_free(b);
      vt_ktree("cp3", cp3);
      cbor_decref(&cp3);
    }
  }
  /* a copy during which one allocation request is refused: whatever it returns, the source is as it was */
  va_fault_mode = VA_ONLY;
  va_fault_k = va.requests + (long)vh_randn((uint64_t)copy_requests + 1);
  long refused_before = va.refused;
  cbor_item_t* cpf = cbor_copy(src);
  va_fault_mode = VA_NONE;
  vh_kbool("fault_hit", va.refused > refused_before);
  vh_kbool("fault_copy_null", cpf == NULL);
  if (cpf) cbor_decref(&cpf);
  vt_ktree("src_after_fault", src);
  (void)ref; (void)size;
  fputs("}\n", vh_out);
}

static long case_live0; /* live blocks before the case's tree was built */
static void ser_case(cbor_item_t* item, const char* desc) {
  ncases++;
  cur_desc = desc;
  alarm(300);
  long live0 = case_live0;
  size_t size = cbor_serialized_size(item);
  unsigned char* b = NULL;
  size_t bs = 12345;
  va_reset_counters();
  size_t w = cbor_serialize_alloc(item, &b, &bs);
  long reqs = va.requests;
  size_t blk = b ? va_block_size(b) : 0;
  fputs("{\"e\":\"ser\"", vh_out);
  vt_ktree("tree", item);
  vh_kint("size", (long long)size);
  vh_kint("alloc_ret", (long long)w);
  vh_kint("alloc_size", (long long)bs);
  vh_kint("alloc_block", (long long)blk);
  vh_kint("alloc_reqs", reqs);
  vh_kbytes("bytes", b ? b : (const unsigned char*)"", b ? w : 0);
  if (b) set_hex(b, w);
  /* reload what was written, from an exactly-sized block */
  if (b && w) {
    unsigned char* exblk;
    unsigned char* ex = vh_exact_rot(w, &exblk);
    memcpy(ex, b, w);
    struct cbor_load_result r;
    cbor_item_t* back = cbor_load(ex, w, &r);
    free(exblk);
    vh_kbool("reload_ok", back != NULL);
    vh_kint("reload_read", (long long)r.read);
    vt_ktree("reload", back);
    if (back) {
      unsigned char* b2 = NULL;
      size_t bs2 = 0;
      size_t w2 = cbor_serialize_alloc(back, &b2, &bs2);
      vh_kbytes("rebytes", b2 ? b2 : (const unsigned char*)"", b2 ? w2 : 0);
      if (b2) va_free(b2);
      cbor_decref(&back);
    } else
      fputs(",\"rebytes\":[]", vh_out);
  } else
    fputs(",\"reload_ok\":false,\"reload_read\":0,\"reload\":[],\"rebytes\":[]", vh_out);
  fputs("}\n", vh_out);
  if (opt_sern) sern_lines(item, size, b);
  if (opt_copy) copy_line(item, b, w);
  if (b) va_free(b);
  cbor_decref(&item);
  if (item == NULL && va.live != live0) fprintf(vh_out, "{\"e\":\"leak\",\"live\":%ld}\n", va.live - live0);
  alarm(0);
}

static int hexval(int c) { return c >= '0' && c <= '9' ? c - '0' : c >= 'a' && c <= 'f' ? c - 'a' + 10 : c >= 'A' && c <= 'F' ? c - 'A' + 10 : -1; }

int main(int argc, char** argv) {
  int a = 1;
  for (; a < argc && argv[a][0] == '-' && argv[a][1] == '-'; a++) {
    if (!strcmp(argv[a], "--sern")) opt_sern = 1;
    else if (!strcmp(argv[a], "--copy")) opt_copy = 1;
    else if (!strcmp(argv[a], "--noshare")) vg_share = 0;
    else if (!strcmp(argv[a], "--wildhalf")) vg_wild_half = 1;
  }
  if (a + 1 >= argc) return 2;
  va_install();
#ifdef HAVE_SAN
  __sanitizer_set_death_callback(on_death);
#endif
  (void)on_death;
  signal(SIGALRM, on_signal);
  signal(SIGABRT, on_signal);
  const char* mode = argv[a];
  static unsigned char buf[1 << 16];
  if (!strcmp(mode, "api")) {
    long count = atol(argv[a + 1]);
    for (long i = 0; i < count; i++) {
      case_live0 = va.live;
      cbor_item_t* it = vg_build((int)vh_randn(5));
      if (it) ser_case(it, "api");
    }
    /* a few wide ones: 2k-member containers (growth path, 2-byte counts) */
    for (int k = 0; k < 4; k++) {
      case_live0 = va.live;
      int members = k < 2 ? 2100 : 4100; /* (4100: on the far side of 4096) */
      if (k == 3) { /* a definite map of 4100 pairs */
        cbor_item_t* bm = cbor_new_definite_map(4100);
        for (int i = 0; i < 4100; i++) {
          cbor_item_t* x = cbor_build_uint16((uint16_t)i);
          (void)cbor_map_add(bm, (struct cbor_pair){.key = x, .value = x});
          cbor_decref(&x);
        }
        ser_case(bm, "wide");
        continue;
      }
      cbor_item_t* big = k == 1 ? cbor_new_indefinite_array() : cbor_new_definite_array((size_t)members);
      for (int i = 0; i < members; i++) {
        cbor_item_t* x = cbor_build_uint16((uint16_t)i);
        (void)cbor_array_push(big, x);
        cbor_decref(&x);
      }
      ser_case(big, "wide");
    }
  } else if (!strcmp(mode, "dec")) {
    long count = atol(argv[a + 1]);
    for (long i = 0; i < count; i++) {
      size_t n = vg_encoding(buf, 4096, 1 + (int)vh_randn(5));
      set_hex(buf, n);
      case_live0 = va.live;
      struct cbor_load_result r;
      unsigned char* exblk;
      unsigned char* ex = vh_exact_rot(n, &exblk);
      memcpy(ex, buf, n);
      cbor_item_t* it = cbor_load(ex, n, &r);
      free(exblk);
      if (it) ser_case(it, "dec");
    }
  } else if (!strcmp(mode, "edge")) {
    /* thresholds the implementation could key on: nesting at the decoder's limit, payloads and chunks around 4 KiB / 64 KiB */
    static unsigned char big[3 * CBOR_MAX_STACK_SIZE + 64 > (1 << 17) + 64 ? 3 * CBOR_MAX_STACK_SIZE + 64 : (1 << 17) + 64];
    static const unsigned char openers[][3] = {{1, 0x81}, {1, 0x9f}, {1, 0xc1}, {2, 0xa1, 0x00}, {2, 0xbf, 0x00}, {1, 0xa1}, {2, 0xd8, 0x20}};
    long which = atol(argv[a + 1]); /* 0: all, 1: deep nests only, 2: big payloads only, 3: big payloads up to 4 KiB */
    for (int d = CBOR_MAX_STACK_SIZE - 1; d <= CBOR_MAX_STACK_SIZE && which != 2 && which != 3; d++)
      for (int oi = 0; oi < 7; oi++)
        for (int inner = 0; inner < 4; inner++) {
          if (d < 1) continue;
          size_t n = 0;
          for (int k = 0; k < d; k++) { memcpy(big + n, openers[oi] + 1, openers[oi][0]); n += openers[oi][0]; }
          if (inner == 0) big[n++] = 0x00; else if (inner == 1) { memcpy(big + n, "\x5f\x41\x61\x40\xff", 5); n += 5; }
          else big[n++] = inner == 2 ? 0x80 : 0xa0; /* an empty container opens no further level: legal under exactly L open ones */
          if (oi == 5) for (int k = 0; k < d; k++) big[n++] = 0x00;       /* a1 with the container in key position: values follow */
          if (oi == 1) for (int k = 0; k < d; k++) big[n++] = 0xff;
          if (oi == 4) for (int k = 0; k < d; k++) big[n++] = 0xff;
          set_hex(big, n < 64 ? n : 64);
          case_live0 = va.live;
          struct cbor_load_result r;
          cbor_item_t* it = cbor_load(big, n, &r);
          if (it) ser_case(it, "deep");
        }
    static const size_t sizes[] = {4095, 4096, 4097, 65535, 65536, 65537};
    for (int si = 0; si < (which == 3 ? 3 : 6) && which != 1; si++)
      for (int kind = 0; kind < 4; kind++) {
        size_t z = sizes[si];
        for (size_t i = 0; i < z; i++) big[i] = (unsigned char)(kind & 1 ? 'a' + i % 26 : i * 7 + 1);
        case_live0 = va.live;
        cbor_item_t* it = NULL;
        if (kind == 0) it = cbor_build_bytestring(big, z);
        else if (kind == 1) it = cbor_build_stringn((const char*)big, z);
        else {
          it = kind == 2 ? cbor_new_indefinite_bytestring() : cbor_new_indefinite_string();
          for (int c = 0; c < 3 && it; c++) {
            size_t cz = c == 1 ? 1 : z;
            cbor_item_t* ch = kind == 2 ? cbor_build_bytestring(big, cz) : cbor_build_stringn((const char*)big, cz);
            if (ch) { (void)(kind == 2 ? cbor_bytestring_add_chunk(it, ch) : cbor_string_add_chunk(it, ch)); cbor_decref(&ch); }
          }
        }
        if (it) ser_case(it, "big");
      }
  } else if (!strcmp(mode, "bigshare")) {
    /* items that are small in memory but whose encoding is huge, because one big string is a member many times over: the size
     * crosses 2^32 (and the other powers of two on the way) without any single length doing so */
    static const size_t shapes[][2] = {{3, 1 << 20}, {4095, 1 << 20}, {4096, 1 << 20}, {4097, (1 << 20) - 5}, {65536, 65531}, {65537, 65535}, {8192, 1 << 19}, {8193, (1 << 19) - 4}};
    va_cap = (size_t)64 << 20; /* the multi-gigabyte output buffer is refused; what matters is how much was asked for */
    for (unsigned si = 0; si < sizeof shapes / sizeof *shapes; si++)
      for (int kind = 0; kind < 3; kind++) {
        size_t c = shapes[si][0], n = shapes[si][1];
        unsigned char* pay = malloc(n);
        memset(pay, 0x5a, n);
        cbor_item_t* bigs = cbor_build_bytestring(pay, n);
        free(pay);
        cbor_item_t* top = kind == 1 ? cbor_new_indefinite_array() : cbor_new_definite_array(c);
        for (size_t i = 0; i < c; i++) (void)cbor_array_push(top, bigs);
        size_t wrap = kind == 1 ? 2 : 0; /* 9f ... ff */
        if (kind == 2) { cbor_item_t* t = cbor_build_tag(55799, top); cbor_decref(&top); top = t; wrap = 3; }
        size_t size = cbor_serialized_size(top);
        unsigned char* ab = NULL;
        size_t abs_ = 0;
        va_reset_counters();
        long rq0 = va.requests;
        size_t aw = cbor_serialize_alloc(top, &ab, &abs_);
        int acalled = va.requests > rq0;
        uint64_t areq = acalled ? va_last_req_size : 0;
        if (ab) va_free(ab);
        unsigned char small[64];
        size_t sret = cbor_serialize(top, small, sizeof small);
        fprintf(vh_out, "{\"e\":\"bigser\",\"kind\":%d", kind);
        vh_ku64("count", c); vh_ku64("len", n); vh_kint("wrap", (long long)wrap); vh_ku64("size", size);
        vh_kbool("acalled", acalled); vh_ku64("areq", areq); vh_ku64("aret", aw); vh_kint("small", (long long)sret);
        fputs("}\n", vh_out);
        cbor_decref(&top);
        cbor_decref(&bigs);
      }
  } else if (!strcmp(mode, "hex")) {
    FILE* f = strcmp(argv[a + 1], "-") ? fopen(argv[a + 1], "r") : stdin;
    if (!f) return 2;
    static char line[1 << 18];
    while (fgets(line, sizeof line, f)) {
      size_t n = 0;
      for (char* p = line; hexval(p[0]) >= 0 && hexval(p[1]) >= 0; p += 2) buf[n++] = (unsigned char)(hexval(p[0]) << 4 | hexval(p[1]));
      set_hex(buf, n);
      case_live0 = va.live;
      struct cbor_load_result r;
      cbor_item_t* it = cbor_load(buf, n, &r);
      if (it) ser_case(it, "hex");
    }
  } else
    return 2;
  fflush(vh_out);
  fprintf(stderr, "h_ser: cases=%ld\n", ncases);
  return 0;
}
