/* C18 recorder: item trees are built inside an mmap arena (installed through cbor_set_allocs, no libc backing); the
 * arena is then write-protected and every read-only operation is run on the tree. Any store into the arena, even a
 * transient one, faults; the handler records it, lifts the protection so that the operation can finish, and the fault
 * is logged with the operation and the tree.
 * usage: h_ro <api|dec> COUNT */
#include <signal.h>
#include <setjmp.h>
#include <ucontext.h>

#include "h_gen.h"
#include "h_tree.h"

static volatile int faults;
static volatile uintptr_t fault_addr;
static void on_segv(int sig, siginfo_t* si, void* uc) {
  (void)sig; (void)uc;
  if (va_in_arena(si->si_addr)) {
    faults++;
    fault_addr = (uintptr_t)si->si_addr;
    va_arena_protect(0); /* let the store proceed; protection is restored before the next operation */
    return;
  }
  static const char msg[] = "\nCURRENT-CASE signal idx=0 fault outside the arena\n";
  if (write(2, msg, sizeof msg - 1) < 0) {}
  _exit(78);
}

static long nlines;
static const cbor_item_t* cur;
static unsigned char outbuf[1 << 16];
static volatile uint64_t sink;

#define RO(name, stmt)                                                                        \
  do {                                                                                        \
    faults = 0;                                                                               \
    va_arena_protect(1);                                                                      \
    stmt;                                                                                     \
    va_arena_protect(0);                                                                      \
    fprintf(vh_out, "%s{\"op\":\"%s\",\"writes\":%d}", first ? "" : ",", name, faults);       \
    first = 0;                                                                                \
  } while (0)

static void node_ops(const cbor_item_t* it, int* firstp) {
  int first = *firstp;
  RO("typeof", sink += cbor_typeof(it));
  RO("isa", sink += cbor_isa_uint(it) + cbor_isa_negint(it) + cbor_isa_bytestring(it) + cbor_isa_string(it) + cbor_isa_array(it) + cbor_isa_map(it) +
                    cbor_isa_tag(it) + cbor_isa_float_ctrl(it));
  RO("is", sink += cbor_is_int(it) + cbor_is_float(it) + cbor_is_bool(it) + cbor_is_null(it) + cbor_is_undef(it));
  RO("refcount", sink += cbor_refcount(it));
  switch (cbor_typeof(it)) {
    case CBOR_TYPE_UINT: case CBOR_TYPE_NEGINT:
      RO("int_get_width", sink += cbor_int_get_width(it));
      RO("get_int", sink += cbor_get_int(it));
      break;
    case CBOR_TYPE_BYTESTRING:
      RO("bytestring_is_definite", sink += cbor_bytestring_is_definite(it) + cbor_bytestring_is_indefinite(it));
      RO("bytestring_length", sink += cbor_bytestring_length(it));
      RO("bytestring_handle", sink += (uintptr_t)cbor_bytestring_handle(it));
      if (cbor_bytestring_is_indefinite(it)) RO("bytestring_chunks", sink += cbor_bytestring_chunk_count(it) + (uintptr_t)cbor_bytestring_chunks_handle(it));
      break;
    case CBOR_TYPE_STRING:
      RO("string_is_definite", sink += cbor_string_is_definite(it) + cbor_string_is_indefinite(it));
      RO("string_length", sink += cbor_string_length(it) + cbor_string_codepoint_count(it));
      RO("string_handle", sink += (uintptr_t)cbor_string_handle(it));
      if (cbor_string_is_indefinite(it)) RO("string_chunks", sink += cbor_string_chunk_count(it) + (uintptr_t)cbor_string_chunks_handle(it));
      break;
    case CBOR_TYPE_ARRAY:
      RO("array_size", sink += cbor_array_size(it) + cbor_array_allocated(it));
      RO("array_is_definite", sink += cbor_array_is_definite(it) + cbor_array_is_indefinite(it));
      RO("array_handle", sink += (uintptr_t)cbor_array_handle(it));
      break;
    case CBOR_TYPE_MAP:
      RO("map_size", sink += cbor_map_size(it) + cbor_map_allocated(it));
      RO("map_is_definite", sink += cbor_map_is_definite(it) + cbor_map_is_indefinite(it));
      RO("map_handle", sink += (uintptr_t)cbor_map_handle(it));
      break;
    case CBOR_TYPE_TAG:
      RO("tag_value", sink += cbor_tag_value(it));
      break;
    case CBOR_TYPE_FLOAT_CTRL:
      RO("float_ctrl_is_ctrl", sink += cbor_float_ctrl_is_ctrl(it));
      RO("float_get_width", sink += cbor_float_get_width(it));
      if (cbor_float_ctrl_is_ctrl(it)) { RO("ctrl_value", sink += cbor_ctrl_value(it)); if (cbor_is_bool(it)) RO("get_bool", sink += cbor_get_bool(it)); }
      else RO("float_get_float", sink += (uint64_t)cbor_float_get_float(it));
      break;
  }
  *firstp = first;
}

static void walk_nodes(const cbor_item_t* it, int* firstp, int* budget) {
  if (!it || (*budget)-- <= 0) return;
  node_ops(it, firstp);
  switch (cbor_typeof(it)) {
    case CBOR_TYPE_ARRAY: for (size_t i = 0; i < cbor_array_size(it); i++) walk_nodes(cbor_array_handle(it)[i], firstp, budget); break;
    case CBOR_TYPE_MAP: for (size_t i = 0; i < cbor_map_size(it); i++) { walk_nodes(cbor_map_handle(it)[i].key, firstp, budget); walk_nodes(cbor_map_handle(it)[i].value, firstp, budget); } break;
    case CBOR_TYPE_TAG: walk_nodes(it->metadata.tag_metadata.tagged_item, firstp, budget); break;
    case CBOR_TYPE_BYTESTRING: if (cbor_bytestring_is_indefinite(it)) for (size_t i = 0; i < cbor_bytestring_chunk_count(it); i++) walk_nodes(cbor_bytestring_chunks_handle(it)[i], firstp, budget); break;
    case CBOR_TYPE_STRING: if (cbor_string_is_indefinite(it)) for (size_t i = 0; i < cbor_string_chunk_count(it); i++) walk_nodes(cbor_string_chunks_handle(it)[i], firstp, budget); break;
    default: break;
  }
}

/* the client may edit a string's bytes in place through its handle (same length): the recorded code point count is then
 * stale, and inspecting the item must still not write to it */
static void edit_strings_in_place(cbor_item_t* it, int* budget) {
  if (!it || (*budget)-- <= 0) return;
  switch (cbor_typeof(it)) {
    case CBOR_TYPE_STRING:
      if (cbor_string_is_definite(it)) {
        size_t n = cbor_string_length(it);
        unsigned char* h = cbor_string_handle(it);
        if (n >= 2 && vh_randn(2)) {
          if (h[0] < 0x80 && h[1] < 0x80) { h[0] = 0xc3; h[1] = 0xa9; }  /* two ASCII letters -> one two-byte scalar */
          else { h[0] = 'e'; h[1] = 'e'; }                               /* ... or the other way round (possibly invalidating the text) */
        }
      } else {
        struct cbor_indefinite_string_data* d = (struct cbor_indefinite_string_data*)it->data; /* (fields, not getters: see vt_raw) */
        for (size_t i = 0; i < d->chunk_count; i++) edit_strings_in_place(d->chunks[i], budget);
      }
      break;
    case CBOR_TYPE_ARRAY: for (size_t i = 0; i < it->metadata.array_metadata.end_ptr; i++) edit_strings_in_place(((cbor_item_t**)it->data)[i], budget); break;
    case CBOR_TYPE_MAP: for (size_t i = 0; i < it->metadata.map_metadata.end_ptr; i++) { edit_strings_in_place(((struct cbor_pair*)it->data)[i].key, budget); edit_strings_in_place(((struct cbor_pair*)it->data)[i].value, budget); } break;
    case CBOR_TYPE_TAG: edit_strings_in_place(it->metadata.tag_metadata.tagged_item, budget); break;
    default: break;
  }
}

static void ro_case(cbor_item_t* it) {
  cur = it;
  if (vh_randn(2)) { int b = 64; edit_strings_in_place(it, &b); }
  fputs("{\"e\":\"ro\"", vh_out);
  vt_ktree("tree", it);
  fputs(",\"ops\":[", vh_out);
  int first = 1;
  size_t sz = 0;
  RO("serialized_size", sz = cbor_serialized_size(it));
  RO("serialize", sink += cbor_serialize(it, outbuf, sizeof outbuf));
  RO("serialize_small_buffer", sink += cbor_serialize(it, outbuf, sz / 2));
  /* cbor_serialize_alloc: its output block comes from outside the (protected) arena */
  {
    unsigned char* ob = NULL;
    size_t obs = 0;
    va_arena_pause(1);
    RO("serialize_alloc", sink += cbor_serialize_alloc(it, &ob, &obs));
    if (ob) va_free(ob);
    ob = NULL;
    RO("serialize_alloc_nosize", sink += cbor_serialize_alloc(it, &ob, NULL));
    if (ob) va_free(ob);
    /* an item on its way into a container (cbor_move: reference count 0) is still only read */
    if (cbor_refcount(it) == 1) {
      ob = NULL;
      (void)cbor_move(it);
      RO("serialize_alloc_moved", sink += cbor_serialize_alloc(it, &ob, &obs));
      RO("serialized_size_moved", sink += cbor_serialized_size(it));
      RO("serialize_moved", sink += cbor_serialize(it, outbuf, sizeof outbuf));
      (void)cbor_incref(it);
      if (ob) va_free(ob);
    }
    va_arena_pause(0);
  }
  int budget = 24;
  walk_nodes(it, &first, &budget);
  fputs("]", vh_out);
  /* the tree is bit-for-bit what it was: the log of the tree after all operations */
  vt_ktree("after", it);
  fputs("}\n", vh_out);
  nlines++;
}

int main(int argc, char** argv) {
  if (argc < 3) return 2;
  va_install();
  vt_raw = 1;       /* the tree is logged from its fields: no getter runs on it outside the protected brackets */
  vg_wild_half = 1; /* half-width items may hold values that are not exact in binary16: reading them must not "normalise" them */
  va_use_arena((size_t)1 << 28);
  struct sigaction sa;
  memset(&sa, 0, sizeof sa);
  sa.sa_sigaction = on_segv;
  sa.sa_flags = SA_SIGINFO;
  sigaction(SIGSEGV, &sa, NULL);
  long count = atol(argv[2]);
  static unsigned char buf[8192];
  for (long i = 0; i < count; i++) {
    cbor_item_t* it;
    if (!strcmp(argv[1], "api")) it = vg_build((int)vh_randn(5));
    else {
      size_t n = vg_encoding(buf, 2048, 1 + (int)vh_randn(5));
      struct cbor_load_result r;
      it = cbor_load(buf, n, &r);
    }
    if (!it) continue;
    ro_case(it);
    cbor_decref(&it);
    va_arena_reset();
  }
  fflush(vh_out);
  fprintf(stderr, "h_ro: %ld trees\n", nlines);
  return 0;
}
