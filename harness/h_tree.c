#include "h_tree.h"
int vt_raw = 0;

static void be(FILE* out, uint64_t v, int n) {
  fputc('[', out);
  for (int i = 0; i < n; i++) fprintf(out, i ? ",%u" : "%u", (unsigned)((v >> (8 * (n - 1 - i))) & 0xff));
  fputc(']', out);
}
static void raw(FILE* out, const unsigned char* p, size_t n) {
  fputc('[', out);
  for (size_t i = 0; i < n; i++) fprintf(out, i ? ",%u" : "%u", p[i]);
  fputc(']', out);
}

/* Trees are emitted FLAT, in pre-order, each node carrying its number of children "nc": the JSON parser
 * behind TLC's Json module refuses nesting deeper than 255, and decoded trees nest up to CBOR_MAX_STACK_SIZE. */
static void vt_node(FILE* out, const cbor_item_t* it);
void vt_tree(FILE* out, const cbor_item_t* it) {
  fputc('[', out);
  if (it) vt_node(out, it);
  fputc(']', out);
}
static void vt_node(FILE* out, const cbor_item_t* it) {
  if (!it) { /* a hole (e.g. the missing value of a half-built map entry) */
    fputs("{\"t\":\"hole\",\"w\":0,\"def\":true,\"v\":[],\"nc\":0,\"rc\":0}", out);
    return;
  }
  size_t rc = cbor_refcount(it);
  switch (cbor_typeof(it)) {
    case CBOR_TYPE_UINT:
    case CBOR_TYPE_NEGINT: {
      int w = 1 << cbor_int_get_width(it);
      fprintf(out, "{\"t\":\"%s\",\"w\":%d,\"def\":true,\"v\":", cbor_isa_uint(it) ? "uint" : "negint", w);
      uint64_t v = w == 1 ? cbor_get_uint8(it) : w == 2 ? cbor_get_uint16(it) : w == 4 ? cbor_get_uint32(it) : cbor_get_uint64(it);
      be(out, v, 8);
      fprintf(out, ",\"nc\":0,\"rc\":%zu}", rc);
      break;
    }
    case CBOR_TYPE_BYTESTRING:
    case CBOR_TYPE_STRING: {
      bool bs = cbor_isa_bytestring(it);
      bool def = bs ? cbor_bytestring_is_definite(it) : cbor_string_is_definite(it);
      fprintf(out, "{\"t\":\"%s\",\"w\":0,\"def\":%s,\"v\":", bs ? "bstr" : "tstr", def ? "true" : "false");
      if (def) {
        raw(out, bs ? cbor_bytestring_handle(it) : cbor_string_handle(it), bs ? cbor_bytestring_length(it) : cbor_string_length(it));
        fprintf(out, ",\"nc\":0,\"cp\":%zu,\"rc\":%zu}", bs ? (size_t)0 : it->metadata.string_metadata.codepoint_count /* read in place: observing must not perturb */, rc);
      } else {
        /* vt_raw: the structure is read from the item's fields, not through getters (C18: observing must not perturb - a getter that
         * repairs or caches something on first use would otherwise run before the write protection is in place) */
        size_t n = vt_raw ? ((struct cbor_indefinite_string_data*)it->data)->chunk_count : bs ? cbor_bytestring_chunk_count(it) : cbor_string_chunk_count(it);
        cbor_item_t** ch = vt_raw ? ((struct cbor_indefinite_string_data*)it->data)->chunks : bs ? cbor_bytestring_chunks_handle(it) : cbor_string_chunks_handle(it);
        fprintf(out, "[],\"nc\":%zu,\"rc\":%zu}", n, rc);
        for (size_t i = 0; i < n; i++) {
          fputc(',', out);
          vt_node(out, ch[i]);
        }
      }
      break;
    }
    case CBOR_TYPE_ARRAY: {
      size_t n = vt_raw ? it->metadata.array_metadata.end_ptr : cbor_array_size(it);
      cbor_item_t** h = vt_raw ? (cbor_item_t**)it->data : cbor_array_handle(it);
      fprintf(out, "{\"t\":\"arr\",\"w\":0,\"def\":%s,\"v\":[],\"nc\":%zu,\"rc\":%zu,\"cap\":%zu}", cbor_array_is_definite(it) ? "true" : "false", n, rc,
              cbor_array_allocated(it));
      for (size_t i = 0; i < n; i++) {
        fputc(',', out);
        vt_node(out, h[i]);
      }
      break;
    }
    case CBOR_TYPE_MAP: {
      size_t n = vt_raw ? it->metadata.map_metadata.end_ptr : cbor_map_size(it);
      struct cbor_pair* h = vt_raw ? (struct cbor_pair*)it->data : cbor_map_handle(it);
      fprintf(out, "{\"t\":\"map\",\"w\":0,\"def\":%s,\"v\":[],\"nc\":%zu,\"rc\":%zu,\"cap\":%zu}", cbor_map_is_definite(it) ? "true" : "false", 2 * n, rc,
              cbor_map_allocated(it));
      for (size_t i = 0; i < n; i++) {
        fputc(',', out);
        vt_node(out, h[i].key);
        fputc(',', out);
        vt_node(out, h[i].value);
      }
      break;
    }
    case CBOR_TYPE_TAG: {
      fprintf(out, "{\"t\":\"tag\",\"w\":0,\"def\":true,\"v\":");
      be(out, cbor_tag_value(it), 8);
      /* read the tagged item without touching its refcount (cbor_tag_item increments it) */
      const cbor_item_t* child = it->metadata.tag_metadata.tagged_item;
      fprintf(out, ",\"nc\":%d,\"rc\":%zu}", child ? 1 : 0, rc);
      if (child) {
        fputc(',', out);
        vt_node(out, child);
      }
      break;
    }
    case CBOR_TYPE_FLOAT_CTRL: {
      if (cbor_float_ctrl_is_ctrl(it)) {
        fprintf(out, "{\"t\":\"ctrl\",\"w\":0,\"def\":true,\"v\":[%u],\"nc\":0,\"rc\":%zu}", cbor_ctrl_value(it), rc);
      } else {
        int w = 1 << cbor_float_get_width(it); /* CBOR_FLOAT_16 = 1 -> 2 bytes */
        fprintf(out, "{\"t\":\"float\",\"w\":%d,\"def\":true,\"v\":", w);
        if (w == 8) {
          double d = cbor_float_get_float8(it);
          uint64_t u;
          memcpy(&u, &d, 8);
          be(out, u, 8);
        } else {
          float f = w == 2 ? cbor_float_get_float2(it) : cbor_float_get_float4(it);
          uint32_t u;
          memcpy(&u, &f, 4);
          be(out, u, 4);
        }
        fprintf(out, ",\"nc\":0,\"rc\":%zu}", rc);
      }
      break;
    }
  }
}

void vt_ktree(const char* key, const cbor_item_t* item) {
  fprintf(vh_out, ",\"%s\":", key);
  vt_tree(vh_out, item);
}

size_t vt_nodes(const cbor_item_t* it) {
  if (!it) return 0;
  size_t n = 1;
  switch (cbor_typeof(it)) {
    case CBOR_TYPE_BYTESTRING:
      if (cbor_bytestring_is_indefinite(it))
        for (size_t i = 0; i < cbor_bytestring_chunk_count(it); i++) n += vt_nodes(cbor_bytestring_chunks_handle(it)[i]);
      break;
    case CBOR_TYPE_STRING:
      if (cbor_string_is_indefinite(it))
        for (size_t i = 0; i < cbor_string_chunk_count(it); i++) n += vt_nodes(cbor_string_chunks_handle(it)[i]);
      break;
    case CBOR_TYPE_ARRAY:
      for (size_t i = 0; i < cbor_array_size(it); i++) n += vt_nodes(cbor_array_handle(it)[i]);
      break;
    case CBOR_TYPE_MAP:
      for (size_t i = 0; i < cbor_map_size(it); i++) n += vt_nodes(cbor_map_handle(it)[i].key) + vt_nodes(cbor_map_handle(it)[i].value);
      break;
    case CBOR_TYPE_TAG:
      n += vt_nodes(it->metadata.tag_metadata.tagged_item);
      break;
    default:
      break;
  }
  return n;
}

static size_t addr_put(const void** arr, size_t cap, size_t n, const void* p) {
  if (p && n < cap) arr[n] = p;
  return p ? n + 1 : n;
}
static size_t addr_walk(const cbor_item_t* it, const void** arr, size_t cap, size_t n) {
  if (!it) return n;
  n = addr_put(arr, cap, n, it);
  switch (cbor_typeof(it)) {
    case CBOR_TYPE_BYTESTRING:
    case CBOR_TYPE_STRING: {
      bool bs = cbor_isa_bytestring(it);
      bool def = bs ? cbor_bytestring_is_definite(it) : cbor_string_is_definite(it);
      n = addr_put(arr, cap, n, it->data);
      if (!def) {
        size_t c = bs ? cbor_bytestring_chunk_count(it) : cbor_string_chunk_count(it);
        cbor_item_t** ch = bs ? cbor_bytestring_chunks_handle(it) : cbor_string_chunks_handle(it);
        n = addr_put(arr, cap, n, ch);
        for (size_t i = 0; i < c; i++) n = addr_walk(ch[i], arr, cap, n);
      }
      break;
    }
    case CBOR_TYPE_ARRAY:
      n = addr_put(arr, cap, n, it->data);
      for (size_t i = 0; i < cbor_array_size(it); i++) n = addr_walk(cbor_array_handle(it)[i], arr, cap, n);
      break;
    case CBOR_TYPE_MAP:
      n = addr_put(arr, cap, n, it->data);
      for (size_t i = 0; i < cbor_map_size(it); i++) {
        n = addr_walk(cbor_map_handle(it)[i].key, arr, cap, n);
        n = addr_walk(cbor_map_handle(it)[i].value, arr, cap, n);
      }
      break;
    case CBOR_TYPE_TAG:
      n = addr_walk(it->metadata.tag_metadata.tagged_item, arr, cap, n);
      break;
    default:
      break;
  }
  return n;
}
size_t vt_addresses(const cbor_item_t* item, const void** arr, size_t cap) { return addr_walk(item, arr, cap, 0); }
