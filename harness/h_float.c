/* C15 recorder: every half pattern, single/double patterns by class, through the streaming decoder,
 * cbor_load + getters, the float encoders and cbor_serialize.
 * usage: h_float <quick|thorough>      (ndjson lines for TLC)
 *        h_float sweep <lo> <hi>       (all single patterns with top byte lo..hi, class rule, prints mismatches only) */
#include <math.h>
#include "vh.h"
#if defined(__x86_64__) || defined(__i386__)
#include <xmmintrin.h>
#define HAVE_MXCSR 1
#endif

static long nlines;
#ifdef HAVE_MXCSR
static unsigned ftz_saved;
static int ftz_on; /* the FPU is in flush-to-zero / denormals-are-zero mode while the library runs */
#endif

static void put_bits(const char* key, const void* p, int n) {
  /* C float/double object -> big-endian bytes of its bit pattern */
  uint64_t u = 0;
  memcpy(&u, p, n);
  unsigned char b[8];
  for (int i = 0; i < n; i++) b[i] = (unsigned char)(u >> (8 * (n - 1 - i)));
  vh_kbytes(key, b, n);
}

static void one(int w, uint64_t bits) {
  unsigned char in[9];
  in[0] = w == 2 ? 0xf9 : w == 4 ? 0xfa : 0xfb;
  for (int i = 0; i < w; i++) in[1 + i] = (unsigned char)(bits >> (8 * (w - 1 - i)));
  unsigned char* exblk;
  unsigned char* ex = vh_exact_rot(1 + w, &exblk); /* start address rotates through all alignments */
  memcpy(ex, in, 1 + w);
  fprintf(vh_out, "{\"e\":\"%s\"", w == 2 ? "half" : w == 4 ? "single" : "double");
  vh_kbytes("b", in + 1, w);
  /* streaming decoder */
  vh_ev_clear();
  struct cbor_decoder_result d = cbor_stream_decode(ex, 1 + w, &vh_recording_callbacks, VH_CTX);
  vh_kint("read", (long long)d.read);
  vh_kstr("slot", vh_ev.slot);
  vh_kbytes("dec", vh_ev.arg, vh_ev.arglen);
  /* tree decoder + getters */
  struct cbor_load_result r;
  cbor_item_t* it = cbor_load(ex, 1 + w, &r);
  free(exblk);
  if (it && cbor_isa_float_ctrl(it) && cbor_is_float(it)) {
    int iw = 1 << cbor_float_get_width(it);
    vh_kint("w", iw);
    if (iw == 8) { double v = cbor_float_get_float8(it); put_bits("load", &v, 8); }
    else { float v = iw == 2 ? cbor_float_get_float2(it) : cbor_float_get_float4(it); put_bits("load", &v, 4); }
#ifdef HAVE_MXCSR
    if (ftz_on) _mm_setcsr(ftz_saved); /* (the widening getter is arithmetic by nature: not part of what is asked of the library in that mode) */
#endif
    double gen = cbor_float_get_float(it);
#ifdef HAVE_MXCSR
    if (ftz_on) _mm_setcsr(ftz_saved | 0x8040u);
#endif
    put_bits("gen", &gen, 8);
    /* encoders on the decoded value */
    unsigned char out[12];
    size_t n;
    if (iw == 8) n = cbor_encode_double(cbor_float_get_float8(it), out, 12);
    else if (iw == 4) n = cbor_encode_single(cbor_float_get_float4(it), out, 12);
    else n = cbor_encode_half(cbor_float_get_float2(it), out, 12);
    vh_kbytes("enc", out, n);
    { /* the same encoder into exactly-sized blocks of w bytes (one short) and w + 1 bytes (exact fit) */
      unsigned char *sblk, *fblk;
      unsigned char* sb_ = vh_exact_rot((size_t)iw, &sblk);
      unsigned char* fb_ = vh_exact_rot((size_t)iw + 1, &fblk);
      size_t ns = iw == 8 ? cbor_encode_double(cbor_float_get_float8(it), sb_, (size_t)iw) : iw == 4 ? cbor_encode_single(cbor_float_get_float4(it), sb_, (size_t)iw) : cbor_encode_half(cbor_float_get_float2(it), sb_, (size_t)iw);
      size_t nf = iw == 8 ? cbor_encode_double(cbor_float_get_float8(it), fb_, (size_t)iw + 1) : iw == 4 ? cbor_encode_single(cbor_float_get_float4(it), fb_, (size_t)iw + 1) : cbor_encode_half(cbor_float_get_float2(it), fb_, (size_t)iw + 1);
      vh_kint("enc_short", (long long)ns);
      vh_kint("enc_fit", (long long)nf);
      free(sblk); free(fblk);
    }
    unsigned char* sb = malloc(1 + w);
    size_t sn = cbor_serialize(it, sb, 1 + w);
    vh_kbytes("ser", sb, sn);
    free(sb);
    /* a freshly built item holding the same value */
    cbor_item_t* b2 = iw == 8 ? cbor_build_float8(cbor_float_get_float8(it)) : iw == 4 ? cbor_build_float4(cbor_float_get_float4(it)) : cbor_build_float2(cbor_float_get_float2(it));
    size_t bn = b2 ? cbor_serialize(b2, out, 12) : 0;
    vh_kbytes("built", out, bn);
    if (b2) cbor_decref(&b2);
  } else {
    fputs(",\"w\":0,\"load\":[],\"gen\":[],\"enc\":[],\"enc_short\":-1,\"enc_fit\":-1,\"ser\":[],\"built\":[]", vh_out);
  }
  if (it) cbor_decref(&it);
  fputs("}\n", vh_out);
  nlines++;
}

static void tot(uint32_t u) {
  float f;
  memcpy(&f, &u, 4);
  unsigned char* out = malloc(3);
  memset(out, 0xA5, 3);
  size_t n = cbor_encode_half(f, out, 3);
  fputs("{\"e\":\"tot\"", vh_out);
  unsigned char b[4] = {(unsigned char)(u >> 24), (unsigned char)(u >> 16), (unsigned char)(u >> 8), (unsigned char)u};
  vh_kbytes("b", b, 4);
  vh_kint("ret", (long long)n);
  vh_kbytes("out", out, n <= 3 ? n : 0);
  fputs("}\n", vh_out);
  nlines++;
  free(out);
}

static int sweep(unsigned lo, unsigned hi) {
  long bad = 0;
  unsigned char in[5] = {0xfa}, out[8];
  for (uint64_t u = (uint64_t)lo << 24; u <= (((uint64_t)hi << 24) | 0xffffff); u++) {
    in[1] = (unsigned char)(u >> 24); in[2] = (unsigned char)(u >> 16); in[3] = (unsigned char)(u >> 8); in[4] = (unsigned char)u;
    vh_ev_clear();
    struct cbor_decoder_result d = cbor_stream_decode(in, 5, &vh_recording_callbacks, VH_CTX);
    int nan = ((u >> 23) & 0xff) == 0xff && (u & 0x7fffff);
    uint32_t got = (uint32_t)vh_ev.arg[0] << 24 | vh_ev.arg[1] << 16 | vh_ev.arg[2] << 8 | vh_ev.arg[3];
    float f;
    memcpy(&f, &got, 4);
    size_t n = cbor_encode_single(f, out, 8);
    uint32_t want = nan ? 0x7fc00000u : (uint32_t)u;
    uint32_t enc = (uint32_t)out[1] << 24 | out[2] << 16 | out[3] << 8 | out[4];
    int ok = d.read == 5 && vh_ev.calls == 1 && !strcmp(vh_ev.slot, "float4") && n == 5 && out[0] == 0xfa && enc == want &&
             (nan ? (((got >> 23) & 0xff) == 0xff && (got & 0x7fffff)) : got == (uint32_t)u);
    /* the half encoder is total on every single */
    size_t hn = cbor_encode_half(f, out, 8);
    if (hn != 3 || out[0] != 0xf9) ok = 0;
    if (!ok && bad++ < 20) printf("{\"e\":\"sweepfail\",\"bits\":%llu}\n", (unsigned long long)u);
  }
  fprintf(stderr, "h_float sweep %u..%u bad=%ld\n", lo, hi, bad);
  return 0;
}

int main(int argc, char** argv) {
  if (argc < 2) return 2;
  va_install();
  if (!strcmp(argv[1], "sweep")) return sweep((unsigned)atoi(argv[2]), (unsigned)atoi(argv[3]));
  int thorough = !strcmp(argv[1], "thorough");
  for (unsigned h = 0; h < 65536; h++) one(2, h);
#ifdef HAVE_MXCSR
  /* the same patterns with the FPU in flush-to-zero / denormals-are-zero mode (as set by -ffast-math start-up code, audio and game
   * engines): a half is never a subnormal single, so an exact decoder and encoder do not depend on that mode */
  {
    ftz_saved = _mm_getcsr();
    ftz_on = 1;
    _mm_setcsr(ftz_saved | 0x8040u);
    for (unsigned h = 0; h < 65536; h++) {
      unsigned e = (h >> 10) & 31;
      if (e <= 2 || e >= 29 || h % 16 == 5) one(2, h);
    }
    /* single- and double-precision subnormals, zeros and the smallest normals: decoding, the own-width getters, the encoders and
     * cbor_serialize only move bits, so they do not depend on that mode either */
    static const uint32_t sm[] = {0, 1, 2, 0x000fff, 0x001000, 0x3fffff, 0x400000, 0x400001, 0x7fffff, 0x555555};
    for (unsigned s = 0; s < 2; s++)
      for (unsigned e = 0; e < 3; e++)
        for (unsigned m = 0; m < sizeof sm / sizeof *sm; m++) one(4, s << 31 | e << 23 | sm[m]);
    for (int k = 0; k < 200; k++) one(4, (uint32_t)vh_rand() & 0x807fffffu);
    static const uint64_t dmz[] = {0, 1, 2, 0xfffffffffffffull, 0x8000000000000ull, 0x8000000000001ull, 0x5555555555555ull};
    for (uint64_t s = 0; s < 2; s++)
      for (uint64_t e = 0; e < 3; e++)
        for (unsigned m = 0; m < 7; m++) one(8, s << 63 | e << 52 | dmz[m]);
    for (int k = 0; k < 200; k++) one(8, vh_rand() & 0x800fffffffffffffull);
    _mm_setcsr(ftz_saved);
    ftz_on = 0;
  }
#endif
  /* singles: every exponent x boundary mantissas x sign, strided, random */
  static const uint32_t mants[] = {0, 1, 2, 0x000fff, 0x001000, 0x001fff, 0x002000, 0x002001, 0x3fffff, 0x400000, 0x400001, 0x7fffff, 0x555555, 0x2aaaaa};
  for (unsigned s = 0; s < 2; s++)
    for (unsigned e = 0; e < 256; e++)
      for (unsigned m = 0; m < sizeof mants / sizeof *mants; m++) {
        uint32_t u = s << 31 | e << 23 | mants[m];
        one(4, u);
        tot(u);
      }
  for (uint64_t u = 0; u < (1ull << 32); u += thorough ? 2039 : 65537) { one(4, u); tot((uint32_t)u); }
  for (int k = 0; k < (thorough ? 500000 : 3000); k++) { uint32_t u = (uint32_t)vh_rand(); one(4, u); tot(u); }
  /* doubles */
  static const uint64_t dm[] = {0, 1, 2, 0xfffffffffffffull, 0x8000000000000ull, 0x8000000000001ull, 0x7ffffffffffffull, 0x5555555555555ull};
  for (uint64_t s = 0; s < 2; s++)
    for (uint64_t e = 0; e < 2048; e++)
      for (unsigned m = 0; m < 8; m++) one(8, s << 63 | e << 52 | dm[m]);
  for (int k = 0; k < (thorough ? 500000 : 3000); k++) one(8, vh_rand());
  fflush(vh_out);
  fprintf(stderr, "h_float: %ld lines\n", nlines);
  return 0;
}
