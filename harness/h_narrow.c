/* The REAL src/cbor/internal/memory_utils.c compiled with a narrow size_t (NARROW_BITS = 8 or 16): every operand pair
 * (8 bits: all 65,536; 16 bits: boundary grid) through every function, results logged for TLC.
 * Built stand-alone (not linked with libcbor): cc -DNARROW_BITS=8 -I<repo>/src h_narrow.c */
#include <assert.h>
#include <limits.h>
#include <stdbool.h>
#include <stddef.h>
#include <stdint.h>
#include <stdio.h>
#include <stdlib.h>
#include <string.h>

#if NARROW_BITS == 8
typedef uint8_t vsize_t;
#else
typedef uint16_t vsize_t;
#endif

static int m_called, r_called;
static unsigned long m_req, r_req;
static char dummy[4];
static void* narrow_malloc(vsize_t n) { m_called = 1; m_req = n; return dummy; }
static void* narrow_realloc(void* p, vsize_t n) { (void)p; r_called = 1; r_req = n; return dummy; }

/* the generated configuration (macros only: growth factor, nesting limit, version) */
#if defined(__has_include)
#if __has_include("cbor/configuration.h")
#include "cbor/configuration.h"
#endif
#endif
/* keep the library's headers out, supply what memory_utils.c needs from them */
#define LIBCBOR_COMMON_H          /* (memory_utils.c includes its own header, which then declares everything with the narrow size_t) */
#define _CBOR_NODISCARD
#define _cbor_malloc narrow_malloc
#define _cbor_realloc narrow_realloc
#define size_t vsize_t
#undef SIZE_MAX
#define SIZE_MAX ((vsize_t)-1)      /* the largest value of the narrow size_t */
#include "cbor/internal/memory_utils.c"
#undef size_t

static void bytes(const char* k, unsigned long v) { printf(",\"%s\":[%lu,%lu,%lu]", k, (v >> 16) & 255, (v >> 8) & 255, v & 255); }
static void one(unsigned long a, unsigned long b) {
  m_called = r_called = 0; m_req = r_req = 0;
  bool mul = _cbor_safe_to_multiply((vsize_t)a, (vsize_t)b);
  bool add = _cbor_safe_to_add((vsize_t)a, (vsize_t)b);
  unsigned long sig = _cbor_safe_signaling_add((vsize_t)a, (vsize_t)b);
  void* ar = _cbor_alloc_multiple((vsize_t)a, (vsize_t)b);
  void* rr = _cbor_realloc_multiple(dummy, (vsize_t)a, (vsize_t)b);
  printf("{\"e\":\"mu\",\"W\":%d", NARROW_BITS);
  bytes("a", a); bytes("b", b);
  printf(",\"mul\":%s,\"add\":%s", mul ? "true" : "false", add ? "true" : "false");
  bytes("sig", sig);
  printf(",\"acalled\":%s,\"aret\":%s", m_called ? "true" : "false", ar ? "true" : "false");
  bytes("areq", m_req);
  printf(",\"rcalled\":%s,\"rret\":%s", r_called ? "true" : "false", rr ? "true" : "false");
  bytes("rreq", r_req);
  printf(",\"hb\":%lu}\n", (unsigned long)_cbor_highest_bit((vsize_t)a));
}

int main(void) {
  static char buf[1 << 20];
  setvbuf(stdout, buf, _IOFBF, sizeof buf);
#if NARROW_BITS == 8
  for (unsigned long a = 0; a < 256; a++) for (unsigned long b = 0; b < 256; b++) one(a, b);
#else
  unsigned long g[200]; int n = 0;
  g[n++] = 0;
  for (int k = 0; k <= 16; k++) for (int d = -1; d <= 1; d++) { long v = (1l << k) + d; if (v >= 0 && v <= 65535) g[n++] = (unsigned long)v; }
  unsigned long extra[] = {3, 5, 7, 10, 181, 182, 255, 256, 257, 362, 363, 21845, 21846, 32767, 43690, 65534, 65535, 1000, 4369};
  for (unsigned i = 0; i < sizeof extra / sizeof *extra; i++) g[n++] = extra[i];
  for (int i = 0; i < n; i++) for (int j = 0; j < n; j++) one(g[i], g[j]);
#endif
  return 0;
}
