/* Recorder for CborScalars: histories of the scalar construction API (cbor_new_X, cbor_set_X, cbor_mark_X) on one item at a time;
 * after every call everything the public getters and predicates say about the item, and its serialization, is logged.
 * usage: h_scalars COUNT */
#include <math.h>
#include "vh.h"

static long nlines;
static float half_value(void) {
  unsigned h = (unsigned)vh_randn(65536);
  int e = (h >> 10) & 31, m = h & 1023;
  double v = e == 0 ? ldexp(m, -24) : e != 31 ? ldexp(m + 1024, e - 25) : m == 0 ? INFINITY : NAN;
  return (float)(h & 0x8000 ? -v : v);
}
static uint64_t bval(void) {
  static const uint64_t bnd[] = {0, 1, 23, 24, 255, 256, 65535, 65536, 4294967295ull, 4294967296ull, ~0ull, 0x8000000000000000ull, 0x7fffffffffffffffull};
  return vh_randn(3) ? bnd[vh_randn(13)] : vh_rand() >> vh_randn(64);
}
static void be(const char* k, uint64_t v, int w) {
  unsigned char b[8];
  for (int i = 0; i < w; i++) b[i] = (unsigned char)(v >> (8 * (w - 1 - i)));
  vh_kbytes(k, b, (size_t)w);
}
static void observe(const char* op, int w, uint64_t arg, int argw, const cbor_item_t* it) {
  fprintf(vh_out, "{\"e\":\"sc\",\"op\":\"%s\",\"w\":%d", op, w);
  be("v", arg, argw);
  if (it) {
    vh_kint("type", cbor_typeof(it) == CBOR_TYPE_UINT ? 0 : cbor_typeof(it) == CBOR_TYPE_NEGINT ? 1 : cbor_typeof(it) == CBOR_TYPE_FLOAT_CTRL ? 7 : 9);
    vh_kbool("isa_uint", cbor_isa_uint(it)); vh_kbool("isa_negint", cbor_isa_negint(it)); vh_kbool("isa_fc", cbor_isa_float_ctrl(it));
    vh_kbool("is_int", cbor_is_int(it)); vh_kbool("is_float", cbor_is_float(it));
    vh_kbool("is_bool", cbor_is_bool(it)); vh_kbool("is_null", cbor_is_null(it)); vh_kbool("is_undef", cbor_is_undef(it));
    if (cbor_is_int(it)) {
      int wc = cbor_int_get_width(it);
      vh_kint("wcode", wc);
      uint64_t own = wc == CBOR_INT_8 ? cbor_get_uint8(it) : wc == CBOR_INT_16 ? cbor_get_uint16(it) : wc == CBOR_INT_32 ? cbor_get_uint32(it) : cbor_get_uint64(it);
      be("val", own, 1 << wc);
      be("getint", cbor_get_int(it), 8);
      vh_kbool("is_ctrl", false); vh_kint("ctrl", 0); vh_kbool("getbool", false);
    } else {
      int wc = cbor_float_get_width(it);
      vh_kint("wcode", wc);
      vh_kbool("is_ctrl", cbor_float_ctrl_is_ctrl(it));
      if (wc == CBOR_FLOAT_0) { be("val", cbor_ctrl_value(it), 1); vh_kint("ctrl", cbor_ctrl_value(it)); vh_kbool("getbool", cbor_is_bool(it) ? cbor_get_bool(it) : false); }
      else {
        uint64_t bits = 0;
        if (wc == CBOR_FLOAT_64) { double d = cbor_float_get_float8(it); memcpy(&bits, &d, 8); be("val", bits, 8); }
        else { float f = wc == CBOR_FLOAT_16 ? cbor_float_get_float2(it) : cbor_float_get_float4(it); uint32_t u; memcpy(&u, &f, 4); be("val", u, 4); }
        vh_kint("ctrl", 0); vh_kbool("getbool", false);
      }
      be("getint", 0, 8);
    }
    unsigned char out[16];
    size_t n = cbor_serialize(it, out, sizeof out);
    vh_kbytes("ser", out, n);
    vh_kint("size", (long long)cbor_serialized_size(it));
    vh_kint("rc", (long long)cbor_refcount(it));
  }
  vh_kint("live", va.live);
  fputs("}\n", vh_out);
  nlines++;
}

int main(int argc, char** argv) {
  if (argc < 2) return 2;
  va_install();
  long N = atol(argv[1]);
  for (long i = 0; i < N; i++) {
    int fam = (int)vh_randn(3);
    cbor_item_t* it = NULL;
    int w = 0;
    if (fam == 0) {
      w = 1 << vh_randn(4);
      it = w == 1 ? cbor_new_int8() : w == 2 ? cbor_new_int16() : w == 4 ? cbor_new_int32() : cbor_new_int64();
      observe("NewInt", w, 0, 0, NULL);
    } else if (fam == 1) {
      w = 2 << vh_randn(3);
      it = w == 2 ? cbor_new_float2() : w == 4 ? cbor_new_float4() : cbor_new_float8();
      observe("NewFloat", w, 0, 0, NULL);
    } else {
      it = cbor_new_ctrl();
      observe("NewCtrl", 0, 0, 0, NULL);
    }
    int steps = 1 + (int)vh_randn(6);
    int is_set = 0;
    for (int s = 0; s < steps; s++) {
      if (fam == 0) {
        int k = (int)vh_randn(is_set ? 4 : 2);
        if (k <= 1 || !is_set) {
          uint64_t v = bval();
          if (w == 1) { v &= 0xff; cbor_set_uint8(it, (uint8_t)v); } else if (w == 2) { v &= 0xffff; cbor_set_uint16(it, (uint16_t)v); }
          else if (w == 4) { v &= 0xffffffffu; cbor_set_uint32(it, (uint32_t)v); } else cbor_set_uint64(it, v);
          is_set = 1;
          observe("SetUint", w, v, w, it);
        } else if (k == 2) { cbor_mark_negint(it); observe("MarkNeg", w, 0, 0, it); }
        else { cbor_mark_uint(it); observe("MarkUint", w, 0, 0, it); }
      } else if (fam == 1) {
        uint64_t bits;
        if (w == 8) { bits = vh_rand(); if (!vh_randn(4)) bits |= 0x7ff0000000000000ull; if (!vh_randn(6)) bits &= 0x800fffffffffffffull; double d; memcpy(&d, &bits, 8); cbor_set_float8(it, d); }
        else {
          float f;
          if (w == 2) f = half_value();
          else { uint32_t u = (uint32_t)vh_rand(); if (!vh_randn(4)) u |= 0x7f800000u; if (!vh_randn(6)) u &= 0x807fffffu; memcpy(&f, &u, 4); }
          uint32_t u;
          memcpy(&u, &f, 4);
          bits = u;
          if (w == 2) cbor_set_float2(it, f); else cbor_set_float4(it, f);
        }
        observe("SetFloat", w, bits, w == 8 ? 8 : 4, it);
      } else {
        if (is_set && cbor_is_bool(it) && vh_randn(2)) { int b = (int)vh_randn(2); cbor_set_bool(it, b); observe("SetBool", 0, (uint64_t)b, 1, it); }
        else { static const uint8_t cv[] = {0, 1, 19, 20, 21, 22, 23, 24, 31, 32, 100, 255}; uint8_t c = vh_randn(3) ? cv[vh_randn(12)] : (uint8_t)vh_rand(); cbor_set_ctrl(it, c); is_set = 1; observe("SetCtrl", 0, c, 1, it); }
      }
    }
    cbor_decref(&it);
    observe("Release", 0, 0, 0, NULL);
  }
  fflush(vh_out);
  fprintf(stderr, "h_scalars: %ld lines\n", nlines);
  return 0;
}
