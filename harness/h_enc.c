/* Recorder for the low-level encoders (C10: exact inverses of the streaming decoder; C07: buffer contract).
 * usage: h_enc c10 <quick|thorough>   |   h_enc c07 */
#include "vh.h"

typedef size_t (*enc64_t)(uint64_t, unsigned char*, size_t);
static size_t e_uint8(uint64_t v, unsigned char* b, size_t n) { return cbor_encode_uint8((uint8_t)v, b, n); }
static size_t e_uint16(uint64_t v, unsigned char* b, size_t n) { return cbor_encode_uint16((uint16_t)v, b, n); }
static size_t e_uint32(uint64_t v, unsigned char* b, size_t n) { return cbor_encode_uint32((uint32_t)v, b, n); }
static size_t e_uint64(uint64_t v, unsigned char* b, size_t n) { return cbor_encode_uint64(v, b, n); }
static size_t e_uint(uint64_t v, unsigned char* b, size_t n) { return cbor_encode_uint(v, b, n); }
static size_t e_negint8(uint64_t v, unsigned char* b, size_t n) { return cbor_encode_negint8((uint8_t)v, b, n); }
static size_t e_negint16(uint64_t v, unsigned char* b, size_t n) { return cbor_encode_negint16((uint16_t)v, b, n); }
static size_t e_negint32(uint64_t v, unsigned char* b, size_t n) { return cbor_encode_negint32((uint32_t)v, b, n); }
static size_t e_negint64(uint64_t v, unsigned char* b, size_t n) { return cbor_encode_negint64(v, b, n); }
static size_t e_negint(uint64_t v, unsigned char* b, size_t n) { return cbor_encode_negint(v, b, n); }
static size_t e_bs(uint64_t v, unsigned char* b, size_t n) { return cbor_encode_bytestring_start((size_t)v, b, n); }
static size_t e_s(uint64_t v, unsigned char* b, size_t n) { return cbor_encode_string_start((size_t)v, b, n); }
static size_t e_arr(uint64_t v, unsigned char* b, size_t n) { return cbor_encode_array_start((size_t)v, b, n); }
static size_t e_map(uint64_t v, unsigned char* b, size_t n) { return cbor_encode_map_start((size_t)v, b, n); }
static size_t e_tag(uint64_t v, unsigned char* b, size_t n) { return cbor_encode_tag(v, b, n); }
static size_t e_ibs(uint64_t v, unsigned char* b, size_t n) { (void)v; return cbor_encode_indef_bytestring_start(b, n); }
static size_t e_is(uint64_t v, unsigned char* b, size_t n) { (void)v; return cbor_encode_indef_string_start(b, n); }
static size_t e_iarr(uint64_t v, unsigned char* b, size_t n) { (void)v; return cbor_encode_indef_array_start(b, n); }
static size_t e_imap(uint64_t v, unsigned char* b, size_t n) { (void)v; return cbor_encode_indef_map_start(b, n); }
static size_t e_bool(uint64_t v, unsigned char* b, size_t n) { return cbor_encode_bool(v != 0, b, n); }
static size_t e_null(uint64_t v, unsigned char* b, size_t n) { (void)v; return cbor_encode_null(b, n); }
static size_t e_undef(uint64_t v, unsigned char* b, size_t n) { (void)v; return cbor_encode_undef(b, n); }
static size_t e_break(uint64_t v, unsigned char* b, size_t n) { (void)v; return cbor_encode_break(b, n); }
static size_t e_ctrl(uint64_t v, unsigned char* b, size_t n) { return cbor_encode_ctrl((uint8_t)v, b, n); }
static size_t e_half(uint64_t v, unsigned char* b, size_t n) { uint32_t u = (uint32_t)v; float f; memcpy(&f, &u, 4); return cbor_encode_half(f, b, n); }
static size_t e_single(uint64_t v, unsigned char* b, size_t n) { uint32_t u = (uint32_t)v; float f; memcpy(&f, &u, 4); return cbor_encode_single(f, b, n); }
static size_t e_double(uint64_t v, unsigned char* b, size_t n) { double d; memcpy(&d, &v, 8); return cbor_encode_double(d, b, n); }

/* dom: 8, 16, 32, 64 = integer domain of that many bits; 0 = no argument; 1 = bool; 2 = half-representable singles;
 * 4 = single bit patterns; 5 = double bit patterns; abytes = how many bytes of the value are logged */
static struct enc { const char* name; enc64_t f; int dom; int abytes; } encs[] = {
    {"uint8", e_uint8, 8, 8}, {"uint16", e_uint16, 16, 8}, {"uint32", e_uint32, 32, 8}, {"uint64", e_uint64, 64, 8}, {"uint", e_uint, 64, 8},
    {"negint8", e_negint8, 8, 8}, {"negint16", e_negint16, 16, 8}, {"negint32", e_negint32, 32, 8}, {"negint64", e_negint64, 64, 8},
    {"negint", e_negint, 64, 8}, {"bytestring_start", e_bs, 64, 8}, {"string_start", e_s, 64, 8}, {"array_start", e_arr, 64, 8},
    {"map_start", e_map, 64, 8}, {"tag", e_tag, 64, 8}, {"indef_bytestring_start", e_ibs, 0, 0}, {"indef_string_start", e_is, 0, 0},
    {"indef_array_start", e_iarr, 0, 0}, {"indef_map_start", e_imap, 0, 0}, {"bool", e_bool, 1, 1}, {"null", e_null, 0, 0},
    {"undef", e_undef, 0, 0}, {"break", e_break, 0, 0}, {"ctrl", e_ctrl, 8, 8}, {"half", e_half, 2, 4}, {"single", e_single, 4, 4},
    {"double", e_double, 5, 8}};
#define NENC ((int)(sizeof encs / sizeof *encs))

static long nlines;
static void log_value(struct enc* e, uint64_t v) {
  unsigned char a[8];
  for (int i = 0; i < 8; i++) a[i] = (unsigned char)(v >> (56 - 8 * i));
  if (e->dom == 1) vh_kbytes("a", a + 7, v ? 1 : 0);
  else vh_kbytes("a", a + 8 - e->abytes, e->abytes);
}

/* C10: encode into a roomy buffer, decode what was written with the streaming decoder */
static void c10_case(struct enc* e, uint64_t v) {
  unsigned char* buf = malloc(16);
  memset(buf, 0xA5, 16);
  size_t r = e->f(v, buf, 16);
  fprintf(vh_out, "{\"e\":\"enc\",\"f\":\"%s\"", e->name);
  log_value(e, v);
  vh_kint("ret", (long long)r);
  vh_kbytes("out", buf, r <= 16 ? r : 0);
  /* decode exactly the bytes written, from an exactly-sized block */
  unsigned char* exblk;
  unsigned char* ex = vh_exact_rot(r <= 16 ? r : 0, &exblk); /* start address rotates through all alignments */
  memcpy(ex, buf, r <= 16 ? r : 0);
  vh_ev_clear();
  struct cbor_decoder_result d = cbor_stream_decode(ex, r, &vh_recording_callbacks, VH_CTX);
  vh_kstr("st", d.status == CBOR_DECODER_FINISHED ? "fin" : d.status == CBOR_DECODER_NEDATA ? "nedata" : "error");
  vh_kint("read", (long long)d.read);
  vh_ku64("req", d.required);
  vh_kint("calls", vh_ev.calls);
  vh_kbool("ctx", !vh_ev.ctx_bad);
  vh_kstr("slot", vh_ev.slot);
  vh_kbytes("arg", vh_ev.arg, vh_ev.arglen);
  fputs("}\n", vh_out);
  nlines++;
  free(exblk);
  free(buf);
}

/* C07: every buffer size 0..10 */
static void c07_case(struct enc* e, uint64_t v) {
  unsigned char ref[16];
  size_t size = e->f(v, ref, 16);
  for (size_t n = 0; n <= 10; n++) {
    size_t frame = 16;
    unsigned char* f = malloc(n + 2 * frame);
    memset(f, 0xA5, n + 2 * frame);
    size_t r = e->f(v, f + frame, n);
    int over = 0;
    long mod = 0;
    for (size_t j = 0; j < frame; j++)
      if (f[j] != 0xA5 || f[frame + n + j] != 0xA5) over = 1;
    /* highest modified index + 1 inside the window; a written byte equal to the sentinel is detected by a second pass with another sentinel */
    unsigned char* g = malloc(n + 1);
    memset(g, 0x5A, n + 1);
    size_t r2 = e->f(v, g, n);
    for (size_t j = 0; j < n; j++)
      if (f[frame + j] != 0xA5 || g[j] != 0x5A) mod = (long)j + 1;
    unsigned char* ex = malloc(n ? n : 1); /* exact-size block for ASan */
    size_t r3 = e->f(v, n ? ex : ex + 1, n);
    fprintf(vh_out, "{\"e\":\"encn\",\"f\":\"%s\"", e->name);
    log_value(e, v);
    vh_kint("size", (long long)size);
    vh_kint("n", (long long)n);
    vh_kint("ret", (long long)r);
    vh_kbool("rets_agree", r == r2 && r == r3);
    vh_kint("mod", mod);
    vh_kbool("over", over);
    vh_kbytes("out", f + frame, r <= n ? r : 0);
    vh_kbytes("full", ref, size <= 16 ? size : 0);
    fputs("}\n", vh_out);
    nlines++;
    free(f); free(g); free(ex);
  }
}

static int boundary(int bits, uint64_t* out) {
  int n = 0;
  uint64_t top = bits == 64 ? ~0ull : (((uint64_t)1 << bits) - 1);
  out[n++] = 0;
  for (int k = 0; k < bits; k++) {
    uint64_t p = (uint64_t)1 << k;
    out[n++] = (p - 1) & top; out[n++] = p & top; out[n++] = (p + 1) & top;
  }
  uint64_t w[] = {23, 24, 25, 255, 256, 257, 65535, 65536, 65537, 4294967295ull, 4294967296ull, 4294967297ull, top, top - 1, 55798, 55799, 55800, 2, 3, 4, 5, 21, 22, 32, 36};
  for (size_t i = 0; i < sizeof w / sizeof *w; i++) out[n++] = w[i] & top;
  return n;
}

static uint32_t half_to_single(unsigned h) { /* only used to enumerate the domain of cbor_encode_half */
  float f;
  int e = (h >> 10) & 31, m = h & 1023;
  double v = e == 0 ? __builtin_ldexp(m, -24) : e != 31 ? __builtin_ldexp(m + 1024, e - 25) : m == 0 ? __builtin_inf() : __builtin_nan("");
  f = (float)(h & 0x8000 ? -v : v);
  uint32_t u;
  memcpy(&u, &f, 4);
  return u;
}

int main(int argc, char** argv) {
  if (argc < 2) return 2;
  int c07 = !strcmp(argv[1], "c07");
  int thorough = argc > 2 && !strcmp(argv[2], "thorough");
  va_install();
  void (*one)(struct enc*, uint64_t) = c07 ? c07_case : c10_case;
  static uint64_t vals[200000];
  for (int i = 0; i < NENC; i++) {
    struct enc* e = &encs[i];
    int n = 0;
    switch (e->dom) {
      case 0: vals[n++] = 0; break;
      case 1: vals[n++] = 0; vals[n++] = 1; break;
      case 8: for (int v = 0; v < 256; v++) vals[n++] = v; break;
      case 16:
        if (thorough && !c07) for (int v = 0; v < 65536; v++) vals[n++] = v;
        else { n = boundary(16, vals); if (!c07) for (int v = 0; v < 65536; v += 7) vals[n++] = v; }
        break;
      case 32: n = boundary(32, vals); for (int k = 0; k < (thorough ? 30000 : 100); k++) vals[n++] = vh_rand() & 0xffffffffu; break;
      case 64:
        n = boundary(64, vals);
        if (!c07) { if (thorough) for (int v = 0; v < 65536; v++) vals[n++] = v; else for (int v = 0; v < 65536; v += 7) vals[n++] = v; }
        for (int k = 0; k < (thorough ? 30000 : 100); k++) vals[n++] = vh_rand() >> vh_randn(64);
        break;
      case 2: /* half-representable singles: all 65,536 halves (strided in quick) + NaNs */
        for (unsigned h = 0; h < 65536; h += (thorough || c07 ? (c07 ? 257 : 1) : 5)) vals[n++] = half_to_single(h);
        vals[n++] = 0x7fc00001u; vals[n++] = 0xffc00000u; vals[n++] = 0x7f800001u;
        break;
      case 4:
        n = boundary(32, vals);
        for (unsigned ex = 0; ex < 256; ex++) { vals[n++] = ex << 23; vals[n++] = (ex << 23) | 1; vals[n++] = (ex << 23) | 0x7fffff; vals[n++] = 0x80000000u | (ex << 23) | 0x400000; }
        for (int k = 0; k < (thorough ? 40000 : 200); k++) vals[n++] = vh_rand() & 0xffffffffu;
        break;
      case 5:
        n = boundary(64, vals);
        for (uint64_t ex = 0; ex < 2048; ex += (c07 ? 64 : 1)) { vals[n++] = ex << 52; vals[n++] = (ex << 52) | 1; vals[n++] = (ex << 52) | 0xfffffffffffffull; vals[n++] = (1ull << 63) | (ex << 52) | (1ull << 51); }
        for (int k = 0; k < (thorough ? 40000 : 200); k++) vals[n++] = vh_rand();
        break;
    }
    if (c07 && n > 260) { /* buffer-contract sweep: boundary values are enough, 11 lines each */
      int m = 0;
      for (int k = 0; k < n; k += 1 + n / 260) vals[m++] = vals[k];
      n = m;
    }
    for (int k = 0; k < n; k++) one(e, vals[k]);
  }
  fflush(vh_out);
  fprintf(stderr, "h_enc: %ld lines\n", nlines);
  return 0;
}
