/* C16 recorder. usage: h_utf8 sweep K [firstlo firsthi]  |  h_utf8 rand N */
#include "vh.h"

static const int clo[14] = {0, 128, 144, 160, 192, 194, 224, 225, 237, 238, 240, 241, 244, 245};
static const int chi[14] = {127, 143, 159, 191, 193, 223, 224, 236, 237, 239, 240, 243, 244, 255};
static long nlines;

static size_t count_set(const unsigned char* b, size_t n, int* preserved) {
  cbor_item_t* s = cbor_new_definite_string();
  unsigned char* h = va_malloc(n); /* ownership passes to the item: must come from the installed allocator */
  memcpy(h, b, n);
  cbor_string_set_handle(s, h, n);
  size_t c = cbor_string_codepoint_count(s);
  if (cbor_string_length(s) != n || memcmp(cbor_string_handle(s), b, n)) *preserved = 0;
  cbor_decref(&s);
  return c;
}
/* attach to an item that already held a (valid, non-empty) text: the count must describe the new bytes only */
static size_t count_reattach(const unsigned char* b, size_t n, int* preserved) {
  cbor_item_t* s = cbor_build_string("h\xc3\xa9llo w\xc3\xb6rld");
  unsigned char* old = cbor_string_handle(s);
  unsigned char* h = va_malloc(n);
  memcpy(h, b, n);
  cbor_string_set_handle(s, h, n);
  va_free(old); /* set_handle does not release the handle it replaces: the client does */
  size_t c = cbor_string_codepoint_count(s);
  if (cbor_string_length(s) != n || memcmp(cbor_string_handle(s), b, n)) *preserved = 0;
  cbor_decref(&s);
  return c;
}
static size_t count_build(const unsigned char* b, size_t n, int* preserved) {
  cbor_item_t* s = cbor_build_stringn((const char*)b, n);
  size_t c = cbor_string_codepoint_count(s);
  if (cbor_string_length(s) != n || memcmp(cbor_string_handle(s), b, n)) *preserved = 0;
  cbor_decref(&s);
  return c;
}
static size_t count_load(const unsigned char* b, size_t n, int* preserved, int* loaded) {
  unsigned char* in = malloc(n + 3);
  size_t hl;
  if (n < 24) { in[0] = (unsigned char)(0x60 + n); hl = 1; }
  else if (n < 256) { in[0] = 0x78; in[1] = (unsigned char)n; hl = 2; }
  else { in[0] = 0x79; in[1] = (unsigned char)(n >> 8); in[2] = (unsigned char)n; hl = 3; }
  memcpy(in + hl, b, n);
  struct cbor_load_result r;
  cbor_item_t* s = cbor_load(in, hl + n, &r);
  free(in);
  if (!s || !cbor_isa_string(s) || r.read != hl + n) { *loaded = 0; if (s) cbor_decref(&s); return (size_t)-1; }
  size_t c = cbor_string_codepoint_count(s);
  if (cbor_string_length(s) != n || memcmp(cbor_string_handle(s), b, n)) *preserved = 0;
  cbor_decref(&s);
  return c;
}

/* the bytes as the only chunk (and as the middle one of three) of an indefinite text string: decoding must accept it
 * whatever its content, and the chunk's count must be the strict count of its own bytes */
static size_t count_chunk(const unsigned char* b, size_t n, int* preserved, int* loaded) {
  unsigned char* in = malloc(n + 16);
  size_t m = 0;
  in[m++] = 0x7f; in[m++] = 0x61; in[m++] = 'a';
  if (n < 24) in[m++] = (unsigned char)(0x60 + n); else { in[m++] = 0x78; in[m++] = (unsigned char)n; }
  memcpy(in + m, b, n); m += n;
  in[m++] = 0x62; in[m++] = 0xc3; in[m++] = 0xa9;
  in[m++] = 0xff;
  struct cbor_load_result r;
  cbor_item_t* s = n < 256 ? cbor_load(in, m, &r) : NULL;
  free(in);
  if (n >= 256) return (size_t)-2;
  if (!s || !cbor_isa_string(s) || !cbor_string_is_indefinite(s) || cbor_string_chunk_count(s) != 3 || r.read != m) { *loaded = 0; if (s) cbor_decref(&s); return (size_t)-1; }
  cbor_item_t* c = cbor_string_chunks_handle(s)[1];
  size_t cnt = cbor_string_codepoint_count(c);
  if (cbor_string_length(c) != n || memcmp(cbor_string_handle(c), b, n)) *preserved = 0;
  if (cbor_string_codepoint_count(cbor_string_chunks_handle(s)[0]) != 1 || cbor_string_codepoint_count(cbor_string_chunks_handle(s)[2]) != 1) *preserved = 0;
  cbor_decref(&s);
  return cnt;
}

/* a copy of an item whose bytes were written in place through its handle after it was attached (the source's recorded count is
 * stale): the copy is a new text string holding exactly these bytes, so its count is theirs */
static size_t count_copy_after_edit(const unsigned char* b, size_t n, int* preserved) {
  unsigned char* filler = malloc(n + 1);
  memset(filler, 'a', n);
  cbor_item_t* s = cbor_build_stringn((const char*)filler, n);
  free(filler);
  if (n) memcpy(cbor_string_handle(s), b, n);
  cbor_item_t* cp = cbor_copy(s);
  size_t c = cp ? cbor_string_codepoint_count(cp) : (size_t)-1;
  if (!cp || cbor_string_length(cp) != n || memcmp(cbor_string_handle(cp), b, n)) *preserved = 0;
  if (cp) cbor_decref(&cp);
  cbor_decref(&s);
  return c;
}
/* the same block attached again, with the same length, after its bytes were rewritten in place: the count describes the new bytes */
static size_t count_reattach_same(const unsigned char* b, size_t n, int* preserved) {
  cbor_item_t* s = cbor_new_definite_string();
  unsigned char* h = va_malloc(n);
  memset(h, 'a', n);
  cbor_string_set_handle(s, h, n);
  if (n) memcpy(h, b, n);
  cbor_string_set_handle(s, h, n);
  size_t c = cbor_string_codepoint_count(s);
  if (cbor_string_length(s) != n || memcmp(cbor_string_handle(s), b, n)) *preserved = 0;
  cbor_decref(&s);
  return c;
}
/* a copy of an indefinite text string whose (middle) chunk holds these bytes: the copied chunk has the same length, content and count */
static size_t count_copy_chunked(const unsigned char* b, size_t n, int* preserved) {
  cbor_item_t* s = cbor_new_indefinite_string();
  cbor_item_t* c0 = cbor_build_string("a");
  cbor_item_t* c1 = cbor_build_stringn((const char*)b, n);
  (void)cbor_string_add_chunk(s, c0); (void)cbor_string_add_chunk(s, c1); (void)cbor_string_add_chunk(s, c0);
  cbor_item_t* cp = cbor_copy(s);
  size_t c = (size_t)-1;
  if (cp && cbor_string_chunk_count(cp) == 3) {
    cbor_item_t* m = cbor_string_chunks_handle(cp)[1];
    c = cbor_string_codepoint_count(m);
    if (cbor_string_length(m) != n || memcmp(cbor_string_handle(m), b, n)) *preserved = 0;
  } else *preserved = 0;
  if (cp) cbor_decref(&cp);
  cbor_decref(&c0); cbor_decref(&c1); cbor_decref(&s);
  return c;
}
/* the NUL-terminated builder (only for texts without a NUL byte) */
static size_t count_buildz(const unsigned char* b, size_t n, int* preserved) {
  if (memchr(b, 0, n)) return (size_t)-2;
  char* z = malloc(n + 1);
  memcpy(z, b, n);
  z[n] = 0;
  cbor_item_t* s = cbor_build_string(z);
  free(z);
  size_t c = cbor_string_codepoint_count(s);
  if (cbor_string_length(s) != n || memcmp(cbor_string_handle(s), b, n)) *preserved = 0;
  cbor_decref(&s);
  return c;
}
static void class_seq(const int* cls, int k, int full_paths) {
  unsigned char rep[4], rep2[4], b[4];
  for (int i = 0; i < k; i++) { rep[i] = (unsigned char)clo[cls[i]]; rep2[i] = (unsigned char)chi[cls[i]]; }
  int preserved = 1, loaded = 1, uniform = 1;
  size_t c0 = count_set(rep, k, &preserved), cb = count_build(rep, k, &preserved), cl = count_load(rep, k, &preserved, &loaded);
  size_t cr = count_reattach(rep, k, &preserved);
  size_t cc = count_chunk(rep, k, &preserved, &loaded);
  unsigned long total = 1;
  int size[4];
  for (int i = 0; i < k; i++) { size[i] = chi[cls[i]] - clo[cls[i]] + 1; total *= size[i]; }
  for (unsigned long v = 0; v < total; v++) {
    unsigned long t = v;
    for (int i = k - 1; i >= 0; i--) { b[i] = (unsigned char)(clo[cls[i]] + t % size[i]); t /= size[i]; }
    if (count_set(b, k, &preserved) != c0) uniform = 0;
    if (full_paths || v % 61 == 0) {
      if (v % 7 == 0 && count_chunk(b, k, &preserved, &loaded) != c0) uniform = 0;
      if (count_build(b, k, &preserved) != c0) uniform = 0;
      if (count_load(b, k, &preserved, &loaded) != c0) uniform = 0;
      { size_t z = count_buildz(b, k, &preserved); if (z != (size_t)-2 && z != c0) uniform = 0; }
      if (v % 5 == 0 && count_copy_after_edit(b, k, &preserved) != c0) uniform = 0;
    }
  }
  fputs("{\"e\":\"cls\",\"classes\":[", vh_out);
  for (int i = 0; i < k; i++) fprintf(vh_out, i ? ",%d" : "%d", cls[i] + 1);
  fputs("]", vh_out);
  vh_kbytes("rep", rep, k);
  vh_kbytes("rep2", rep2, k);
  vh_kint("count", (long long)c0);
  vh_kint("count_b", (long long)cb);
  vh_kint("count_l", (long long)cl);
  vh_kint("count_r", (long long)cr);
  vh_kint("count_c", (long long)cc);
  vh_kbool("uniform", uniform);
  vh_kbool("preserved", preserved);
  vh_kbool("loaded", loaded);
  vh_kint("n", (long long)total);
  fputs("}\n", vh_out);
  nlines++;
}

static size_t put_scalar(unsigned char* b, uint32_t c) {
  if (c < 0x80) { b[0] = (unsigned char)c; return 1; }
  if (c < 0x800) { b[0] = (unsigned char)(0xc0 | c >> 6); b[1] = (unsigned char)(0x80 | (c & 63)); return 2; }
  if (c < 0x10000) { b[0] = (unsigned char)(0xe0 | c >> 12); b[1] = (unsigned char)(0x80 | ((c >> 6) & 63)); b[2] = (unsigned char)(0x80 | (c & 63)); return 3; }
  b[0] = (unsigned char)(0xf0 | c >> 18); b[1] = (unsigned char)(0x80 | ((c >> 12) & 63)); b[2] = (unsigned char)(0x80 | ((c >> 6) & 63)); b[3] = (unsigned char)(0x80 | (c & 63));
  return 4;
}
static uint32_t rand_scalar(void) {
  static const uint32_t bnd[] = {0, 0x7f, 0x80, 0x7ff, 0x800, 0xd7ff, 0xe000, 0xffff, 0x10000, 0x10ffff, 0xfffd};
  uint32_t c;
  if (vh_randn(3) == 0) return bnd[vh_randn(11)];
  do c = (uint32_t)(vh_rand() % 0x110000); while (c >= 0xd800 && c <= 0xdfff);
  return vh_randn(2) ? c % 0x800 : c;
}
static void txt_line(const unsigned char* b, size_t n) {
  int preserved = 1, loaded = 1;
  size_t a = count_set(b, n, &preserved), c = count_build(b, n, &preserved), d = count_load(b, n, &preserved, &loaded);
  size_t e = count_reattach(b, n, &preserved);
  size_t g = count_chunk(b, n, &preserved, &loaded);
  fputs("{\"e\":\"txt\"", vh_out);
  vh_kbytes("b", b, n);
  vh_kint("cp_set", (long long)a);
  vh_kint("cp_build", (long long)c);
  vh_kint("cp_load", (long long)d);
  vh_kint("cp_reattach", (long long)e);
  vh_kint("cp_chunk", n < 256 ? (long long)g : (long long)a);
  { size_t ce = count_copy_after_edit(b, n, &preserved), cz = count_buildz(b, n, &preserved);
    vh_kint("cp_copyedit", (long long)ce);
    vh_kint("cp_reattach_same", (long long)count_reattach_same(b, n, &preserved));
    vh_kint("cp_copychunked", (long long)count_copy_chunked(b, n, &preserved));
    vh_kint("cp_buildz", cz == (size_t)-2 ? (long long)a : (long long)cz); }
  vh_kbool("loaded", loaded);
  vh_kbool("same", preserved);
  fputs("}\n", vh_out);
  nlines++;
}

int main(int argc, char** argv) {
  if (argc < 3) return 2;
  va_install();
  fputs("{\"e\":\"classes\",\"lo\":[", vh_out);
  for (int i = 0; i < 14; i++) fprintf(vh_out, i ? ",%d" : "%d", clo[i]);
  fputs("],\"hi\":[", vh_out);
  for (int i = 0; i < 14; i++) fprintf(vh_out, i ? ",%d" : "%d", chi[i]);
  fputs("]}\n", vh_out);
  if (!strcmp(argv[1], "sweep")) {
    int K = atoi(argv[2]);
    int part = argc > 4 ? atoi(argv[3]) : 0, parts = argc > 4 ? atoi(argv[4]) : 1; /* class sequences dealt round-robin */
    long seqno = 0;
    if (part == 0) { unsigned char e = 0; txt_line(&e, 0); }
    for (int k = 1; k <= K; k++) {
      int cls[4] = {0, 0, 0, 0};
      long total = 1;
      for (int i = 0; i < k; i++) total *= 14;
      for (long v = 0; v < total; v++) {
        long t = v;
        for (int i = k - 1; i >= 0; i--) { cls[i] = (int)(t % 14); t /= 14; }
        if (seqno++ % parts != part) continue;
        class_seq(cls, k, k <= 3);
      }
    }
  } else {
    long N = atol(argv[2]);
    static unsigned char b[600], m[600];
    { /* a multi-byte sequence interrupted by a run of ASCII (0..17 bytes) at every alignment 0..7, with its full tail, a short tail, or none */
      static const unsigned char leads[][4] = {{0xc2, 0xa9, 0, 0}, {0xdf, 0xbf, 0, 0}, {0xe0, 0xa0, 0x80, 0}, {0xe2, 0x82, 0xac, 0}, {0xed, 0x9f, 0xbf, 0}, {0xef, 0xbf, 0xbd, 0},
                                                {0xf0, 0x9f, 0x98, 0x80}, {0xf1, 0x80, 0x80, 0x80}, {0xf4, 0x8f, 0xbf, 0xbf}};
      static const int lens[] = {2, 2, 3, 3, 3, 3, 4, 4, 4};
      for (int li = 0; li < 9; li++)
        for (int pre = 0; pre < 8; pre++)
          for (int runl = 0; runl <= 17; runl++)
            for (int split = 1; split < lens[li]; split++)       /* how many bytes of the sequence come before the run */
              for (int tail = 0; tail <= lens[li] - split; tail++) { /* how many of the remaining bytes come after it */
                size_t n = 0;
                for (int i = 0; i < pre; i++) b[n++] = (unsigned char)('A' + i);
                for (int i = 0; i < split; i++) b[n++] = leads[li][i];
                for (int i = 0; i < runl; i++) b[n++] = (unsigned char)('a' + i);
                for (int i = 0; i < tail; i++) b[n++] = leads[li][split + i];
                b[n++] = '!';
                txt_line(b, n);
              }
    }
    for (long i = 0; i < N; i++) {
      size_t n = 0;
      int k = 1 + (int)vh_randn(i % 50 == 0 ? 60 : 8);
      for (int j = 0; j < k; j++) n += put_scalar(b + n, rand_scalar());
      txt_line(b, n);
      /* one fault injected at every position */
      for (size_t p = 0; p < n; p++) {
        memcpy(m, b, n);
        switch (vh_randn(4)) {
          case 0: m[p] = (unsigned char)vh_rand(); txt_line(m, n); break;                 /* overwrite */
          case 1: memmove(m + p, m + p + 1, n - p - 1); txt_line(m, n - 1); break;        /* delete a byte */
          case 2: txt_line(m, p); break;                                                  /* truncate */
          default: memmove(m + p + 1, m + p, n - p); m[p] = (unsigned char)(0x80 | vh_randn(64)); txt_line(m, n + 1); break; /* stray continuation */
        }
      }
    }
  }
  fflush(vh_out);
  fprintf(stderr, "h_utf8: %ld lines\n", nlines);
  return 0;
}
