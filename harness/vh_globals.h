/* Observation device for "the library keeps no state of its own": with libcbor.so's writable segments (.data/.bss/.got, bound
 * eagerly: LD_BIND_NOW / -z now) write-protected, any store a call makes to a static or global of the library faults and is counted.
 * Include after defining _GNU_SOURCE before any system header; link against the shared library and -ldl. */
#ifndef VH_GLOBALS_H
#define VH_GLOBALS_H
#include <dlfcn.h>
#include <link.h>
#include <signal.h>
#include <sys/mman.h>
#include <unistd.h>
static uintptr_t seg_lo[8], seg_hi[8];
static int nseg;
static int phdr_cb(struct dl_phdr_info* info, size_t size, void* data) {
  (void)size; (void)data;
  if (!info->dlpi_name || !strstr(info->dlpi_name, "libcbor")) return 0;
  for (int i = 0; i < info->dlpi_phnum; i++) {
    const ElfW(Phdr)* ph = &info->dlpi_phdr[i];
    if (ph->p_type == PT_LOAD && (ph->p_flags & PF_W) && nseg < 8) {
      seg_lo[nseg] = (info->dlpi_addr + ph->p_vaddr) & ~(uintptr_t)4095;
      seg_hi[nseg] = (info->dlpi_addr + ph->p_vaddr + ph->p_memsz + 4095) & ~(uintptr_t)4095;
      nseg++;
    }
  }
  return 0;
}
static volatile int gfaults;
static char gsym[256];
static void on_segv(int sig, siginfo_t* si, void* uc) {
  (void)sig; (void)uc;
  uintptr_t a = (uintptr_t)si->si_addr;
  for (int i = 0; i < nseg; i++)
    if (a >= seg_lo[i] && a < seg_hi[i]) {
      gfaults++;
      Dl_info di;
      if (dladdr(si->si_addr, &di) && di.dli_sname) snprintf(gsym, sizeof gsym, "%s", di.dli_sname);
      else snprintf(gsym, sizeof gsym, "libcbor+0x%lx", (unsigned long)(a - seg_lo[0]));
      mprotect((void*)seg_lo[i], seg_hi[i] - seg_lo[i], PROT_READ | PROT_WRITE);
      return;
    }
  static const char msg[] = "\nfault outside libcbor data\n";
  if (write(2, msg, sizeof msg - 1) < 0) {}
  _exit(78);
}
static void vg_protect(int ro) { for (int i = 0; i < nseg; i++) mprotect((void*)seg_lo[i], seg_hi[i] - seg_lo[i], ro ? PROT_READ : PROT_READ | PROT_WRITE); }
static void vg_setup(void) {
  dl_iterate_phdr(phdr_cb, NULL);
  struct sigaction sa;
  memset(&sa, 0, sizeof sa);
  sa.sa_sigaction = on_segv;
  sa.sa_flags = SA_SIGINFO;
  sigaction(SIGSEGV, &sa, NULL);
}
#endif
