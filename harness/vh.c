#include "vh.h"

/* With -DVH_WRAP (and -Wl,--wrap=malloc,--wrap=calloc,--wrap=realloc,--wrap=free) every direct reference to the C
 * allocator from libcbor's objects or the harness goes through __wrap_*: a call that arrives while a library call is
 * in progress (vh_in_lib) and does not come from the installed allocator is a bypass of cbor_set_allocs. */
int vh_in_lib;
long vh_bypass;
static int va_inside;
#ifdef VH_WRAP
void* __real_malloc(size_t);
void* __real_calloc(size_t, size_t);
void* __real_realloc(void*, size_t);
void __real_free(void*);
static void note_bypass(void) { if (vh_in_lib && !va_inside) vh_bypass++; }
void* __wrap_malloc(size_t n) { note_bypass(); return __real_malloc(n); }
void* __wrap_calloc(size_t a, size_t b) { note_bypass(); return __real_calloc(a, b); }
void* __wrap_realloc(void* p, size_t n) { note_bypass(); return __real_realloc(p, n); }
void __wrap_free(void* p) { note_bypass(); __real_free(p); }
#endif

FILE* vh_out;

static void __attribute__((constructor)) vh_init(void) {
  vh_out = stdout;
  static char buf[1 << 20];
  setvbuf(stdout, buf, _IOFBF, sizeof buf);
  const char* s = getenv("VERIF_SEED");
  vh_rng_state = 0x9E3779B97F4A7C15ull ^ (s ? strtoull(s, NULL, 10) * 0xD1342543DE82EF95ull : 0);
}

void vh_bytes(const unsigned char* p, size_t n) {
  fputc('[', vh_out);
  for (size_t i = 0; i < n; i++) fprintf(vh_out, i ? ",%u" : "%u", p[i]);
  fputc(']', vh_out);
}
void vh_u64(uint64_t v) {
  unsigned char b[8];
  for (int i = 0; i < 8; i++) b[i] = (unsigned char)(v >> (56 - 8 * i));
  vh_bytes(b, 8);
}
void vh_kbytes(const char* key, const unsigned char* p, size_t n) {
  fprintf(vh_out, ",\"%s\":", key);
  vh_bytes(p, n);
}
void vh_ku64(const char* key, uint64_t v) {
  fprintf(vh_out, ",\"%s\":", key);
  vh_u64(v);
}
void vh_kint(const char* key, long long v) { fprintf(vh_out, ",\"%s\":%lld", key, v); }
void vh_kstr(const char* key, const char* v) { fprintf(vh_out, ",\"%s\":\"%s\"", key, v); }
void vh_kbool(const char* key, bool v) { fprintf(vh_out, ",\"%s\":%s", key, v ? "true" : "false"); }

uint64_t vh_rng_state;
uint64_t vh_rand(void) { /* splitmix64 */
  uint64_t z = (vh_rng_state += 0x9E3779B97F4A7C15ull);
  z = (z ^ (z >> 30)) * 0xBF58476D1CE4E5B9ull;
  z = (z ^ (z >> 27)) * 0x94D049BB133111EBull;
  return z ^ (z >> 31);
}

/* ------------------------------------------------------------------ arena backing (no libc behind it) */
#include <sys/mman.h>
static unsigned char* arena_base;
static size_t arena_size, arena_used;
void va_use_arena(size_t bytes) {
  arena_base = mmap(NULL, bytes, PROT_READ | PROT_WRITE, MAP_PRIVATE | MAP_ANONYMOUS, -1, 0);
  if (arena_base == MAP_FAILED) abort();
  arena_size = bytes;
  arena_used = 0;
}
static void* arena_alloc(size_t n) {
  size_t need = (n + 15) & ~(size_t)15;
  if (need == 0) need = 16;
  if (arena_used + need > arena_size) return NULL;
  void* p = arena_base + arena_used;
  arena_used += need;
  return p;
}
void va_arena_protect(int readonly) {
  if (arena_base && mprotect(arena_base, arena_size, readonly ? PROT_READ : PROT_READ | PROT_WRITE)) abort();
}
bool va_in_arena(const void* p) { return arena_base && (const unsigned char*)p >= arena_base && (const unsigned char*)p < arena_base + arena_size; }
void va_arena_reset(void) { if (va.live == 0) arena_used = 0; }
static int arena_paused;
void va_arena_pause(int on) { arena_paused = on; }
static void* back_alloc(size_t n) { return arena_base && !arena_paused ? arena_alloc(n) : malloc(n ? n : 1); }
static void back_free(void* p) { if (!va_in_arena(p)) free(p); }

/* ------------------------------------------------------------------ allocator */
struct va_stats va;
int va_fault_mode = VA_NONE;
long va_fault_k = 0;
size_t va_cap = (size_t)64 << 20;
int va_log = 0;
uint64_t va_last_req_size;

#define VA_TAB (1u << 16)
struct va_ent { void* p; size_t size; long id; };
static struct va_ent* va_tab;
static size_t va_tab_cap, va_tab_n;
static long va_serial;

static size_t va_hash(const void* p, size_t cap) { return (size_t)(((uintptr_t)p >> 4) * 0x9E3779B97F4A7C15ull) & (cap - 1); }
static struct va_ent* va_find(const void* p) {
  if (!va_tab || !p) return NULL;
  for (size_t i = va_hash(p, va_tab_cap);; i = (i + 1) & (va_tab_cap - 1)) {
    if (va_tab[i].p == p) return &va_tab[i];
    if (va_tab[i].p == NULL) return NULL;
  }
}
static void va_put(void* p, size_t size, long id);
static void va_grow(void) {
  size_t ocap = va_tab_cap;
  struct va_ent* old = va_tab;
  va_tab_cap = ocap ? ocap * 2 : VA_TAB;
  va_tab = calloc(va_tab_cap, sizeof *va_tab);
  va_tab_n = 0;
  for (size_t i = 0; i < ocap; i++)
    if (old[i].p) va_put(old[i].p, old[i].size, old[i].id);
  free(old);
}
static void va_put(void* p, size_t size, long id) {
  if (va_tab_n * 2 >= va_tab_cap) va_grow();
  size_t i = va_hash(p, va_tab_cap);
  while (va_tab[i].p) i = (i + 1) & (va_tab_cap - 1);
  va_tab[i] = (struct va_ent){p, size, id};
  va_tab_n++;
}
static void va_del(struct va_ent* e) {
  /* backward-shift deletion */
  size_t i = (size_t)(e - va_tab);
  va_tab[i].p = NULL;
  va_tab_n--;
  for (size_t j = (i + 1) & (va_tab_cap - 1); va_tab[j].p; j = (j + 1) & (va_tab_cap - 1)) {
    struct va_ent t = va_tab[j];
    va_tab[j].p = NULL;
    va_tab_n--;
    va_put(t.p, t.size, t.id);
  }
}

/* event ring */
struct va_event { char op; long a, b; uint64_t size; };
static struct va_event* va_evs;
static long va_nev, va_evcap;
static void va_event(char op, long a, long b, uint64_t size) {
  if (!va_log) return;
  if (va_nev == va_evcap) {
    va_evcap = va_evcap ? va_evcap * 2 : 1024;
    va_evs = realloc(va_evs, va_evcap * sizeof *va_evs);
  }
  va_evs[va_nev++] = (struct va_event){op, a, b, size};
}
void va_events_clear(void) { va_nev = 0; }
long va_events_count(void) { return va_nev; }
void va_events_json(const char* key) {
  fprintf(vh_out, ",\"%s\":[", key);
  for (long i = 0; i < va_nev; i++) {
    struct va_event* e = &va_evs[i];
    if (i) fputc(',', vh_out);
    fprintf(vh_out, "{\"op\":\"%c\",\"a\":%ld,\"b\":%ld,\"size\":", e->op, e->a, e->b);
    vh_u64(e->size);
    fputc('}', vh_out);
  }
  fputc(']', vh_out);
}

/* fill a fresh block with a non-zero pattern (whole block up to 64 KiB, first and last 4 KiB beyond: huge declared counts are cheap to refuse) */
static void va_junk(void* p, size_t size) {
  if (size <= 65536) memset(p, 0xD5, size);
  else { memset(p, 0xD5, 4096); memset((unsigned char*)p + size - 4096, 0xD5, 4096); }
}
static void* va_malloc_(size_t size);
static void* va_realloc_(void* old, size_t size);
static void va_free_(void* p);
static bool va_refuse(size_t size) {
  long k = va.requests++;
  va_last_req_size = size;
  bool r = (va_fault_mode == VA_ONLY && k == va_fault_k) || (va_fault_mode == VA_FROM && k >= va_fault_k) ||
           (va_cap && size > va_cap);
  if (r) va.refused++;
  return r;
}

void* va_malloc(size_t size) {
  va_inside++;
  void* r_ = va_malloc_(size);
  va_inside--;
  return r_;
}
static void* va_malloc_(size_t size) {
  if (va_refuse(size)) {
    va_event('X', 0, 0, size);
    return NULL;
  }
  void* p = back_alloc(size);
  if (!p) abort();
  va_junk(p, size); /* fresh memory is never zero: nothing may rely on what malloc happens to return */
  long id = ++va_serial;
  va_put(p, size, id);
  va.mallocs++;
  va.live++;
  va.live_bytes += size;
  va_event('M', id, 0, size);
  return p;
}

void* va_realloc(void* old, size_t size) {
  va_inside++;
  void* r_ = va_realloc_(old, size);
  va_inside--;
  return r_;
}
static void* va_realloc_(void* old, size_t size) {
  struct va_ent* e = NULL;
  long oldid = 0;
  if (old) {
    e = va_find(old);
    if (!e) {
      va.foreign_realloc++;
      va.requests++;
      va_event('r', -1, 0, size); /* realloc of a block this allocator does not own (or already released) */
      return NULL;
    }
    oldid = e->id;
  }
  if (va_refuse(size)) {
    va_event('X', 1, oldid, size);
    return NULL;
  }
  void* p = back_alloc(size);
  if (!p) abort();
  va_junk(p, size);
  long id = ++va_serial;
  if (e) {
    memcpy(p, old, e->size < size ? e->size : size);
    va.live_bytes -= e->size;
    va_del(e);
    back_free(old); /* always move: a stale pointer is poisoned under ASan */
    va.live--;
  }
  va_put(p, size, id);
  va.reallocs++;
  va.live++;
  va.live_bytes += size;
  va_event('R', oldid, id, size);
  return p;
}

void va_free(void* p) {
  va_inside++;
  va_free_(p);
  va_inside--;
}
static void va_free_(void* p) {
  if (!p) {
    va.free_null++;
    return;
  }
  struct va_ent* e = va_find(p);
  if (!e) {
    va.foreign_free++;
    va_event('f', -1, 0, 0); /* foreign or stale pointer: not passed on */
    return;
  }
  va_event('F', e->id, 0, e->size);
  va.live_bytes -= e->size;
  va.live--;
  va.frees++;
  va_del(e);
  back_free(p);
}

bool va_is_live(const void* p) { return va_find(p) != NULL; }
size_t va_block_size(const void* p) {
  struct va_ent* e = va_find(p);
  return e ? e->size : (size_t)-1;
}
long va_block_id(const void* p) {
  struct va_ent* e = va_find(p);
  return e ? e->id : -1;
}
void va_install(void) { cbor_set_allocs(va_malloc, va_realloc, va_free); }
void va_reset_counters(void) {
  long live = va.live;
  size_t lb = va.live_bytes;
  memset(&va, 0, sizeof va);
  va.live = live;
  va.live_bytes = lb;
}

/* ------------------------------------------------------------------ recording callbacks */
struct vh_event vh_ev;
void vh_ev_clear(void) { memset(&vh_ev, 0, sizeof vh_ev); vh_ev.slot = "none"; }
static void rec_int(const char* slot, uint64_t v) {
  vh_ev.calls++;
  vh_ev.slot = slot;
  for (int i = 0; i < 8; i++) vh_ev.arg[i] = (unsigned char)(v >> (56 - 8 * i));
  vh_ev.arglen = 8;
  vh_ev.data = NULL;
}
static void rec_simple(const char* slot) {
  vh_ev.calls++;
  vh_ev.slot = slot;
  vh_ev.arglen = 0;
  vh_ev.data = NULL;
}
static void cb_uint8(void* c, uint8_t v) { if (c != VH_CTX) vh_ev.ctx_bad = 1; rec_int("uint8", v); }
static void cb_uint16(void* c, uint16_t v) { if (c != VH_CTX) vh_ev.ctx_bad = 1; rec_int("uint16", v); }
static void cb_uint32(void* c, uint32_t v) { if (c != VH_CTX) vh_ev.ctx_bad = 1; rec_int("uint32", v); }
static void cb_uint64(void* c, uint64_t v) { if (c != VH_CTX) vh_ev.ctx_bad = 1; rec_int("uint64", v); }
static void cb_negint8(void* c, uint8_t v) { if (c != VH_CTX) vh_ev.ctx_bad = 1; rec_int("negint8", v); }
static void cb_negint16(void* c, uint16_t v) { if (c != VH_CTX) vh_ev.ctx_bad = 1; rec_int("negint16", v); }
static void cb_negint32(void* c, uint32_t v) { if (c != VH_CTX) vh_ev.ctx_bad = 1; rec_int("negint32", v); }
static void cb_negint64(void* c, uint64_t v) { if (c != VH_CTX) vh_ev.ctx_bad = 1; rec_int("negint64", v); }
static void cb_bs(void* c, cbor_data d, uint64_t n) { if (c != VH_CTX) vh_ev.ctx_bad = 1; rec_int("byte_string", n); vh_ev.data = d; }
static void cb_bs_start(void* c) { if (c != VH_CTX) vh_ev.ctx_bad = 1; rec_simple("byte_string_start"); }
static void cb_s(void* c, cbor_data d, uint64_t n) { if (c != VH_CTX) vh_ev.ctx_bad = 1; rec_int("string", n); vh_ev.data = d; }
static void cb_s_start(void* c) { if (c != VH_CTX) vh_ev.ctx_bad = 1; rec_simple("string_start"); }
static void cb_arr(void* c, uint64_t n) { if (c != VH_CTX) vh_ev.ctx_bad = 1; rec_int("array_start", n); }
static void cb_iarr(void* c) { if (c != VH_CTX) vh_ev.ctx_bad = 1; rec_simple("indef_array_start"); }
static void cb_map(void* c, uint64_t n) { if (c != VH_CTX) vh_ev.ctx_bad = 1; rec_int("map_start", n); }
static void cb_imap(void* c) { if (c != VH_CTX) vh_ev.ctx_bad = 1; rec_simple("indef_map_start"); }
static void cb_tag(void* c, uint64_t v) { if (c != VH_CTX) vh_ev.ctx_bad = 1; rec_int("tag", v); }
static void cb_f2(void* c, float f) {
  if (c != VH_CTX) vh_ev.ctx_bad = 1;
  uint32_t u;
  memcpy(&u, &f, 4);
  rec_int("float2", u);
  memmove(vh_ev.arg, vh_ev.arg + 4, 4);
  vh_ev.arglen = 4;
}
static void cb_f4(void* c, float f) {
  if (c != VH_CTX) vh_ev.ctx_bad = 1;
  uint32_t u;
  memcpy(&u, &f, 4);
  rec_int("float4", u);
  memmove(vh_ev.arg, vh_ev.arg + 4, 4);
  vh_ev.arglen = 4;
}
static void cb_f8(void* c, double f) {
  if (c != VH_CTX) vh_ev.ctx_bad = 1;
  uint64_t u;
  memcpy(&u, &f, 8);
  rec_int("float8", u);
}
static void cb_undef(void* c) { if (c != VH_CTX) vh_ev.ctx_bad = 1; rec_simple("undefined"); }
static void cb_null(void* c) { if (c != VH_CTX) vh_ev.ctx_bad = 1; rec_simple("null"); }
static void cb_bool(void* c, bool b) {
  if (c != VH_CTX) vh_ev.ctx_bad = 1;
  rec_int("boolean", b ? 1 : 0);
  vh_ev.arg[0] = vh_ev.arg[7];
  vh_ev.arglen = b ? 1 : 0;
}
static void cb_break(void* c) { if (c != VH_CTX) vh_ev.ctx_bad = 1; rec_simple("indef_break"); }

const struct cbor_callbacks vh_recording_callbacks = {
    .uint8 = cb_uint8, .uint16 = cb_uint16, .uint32 = cb_uint32, .uint64 = cb_uint64,
    .negint8 = cb_negint8, .negint16 = cb_negint16, .negint32 = cb_negint32, .negint64 = cb_negint64,
    .byte_string = cb_bs, .byte_string_start = cb_bs_start, .string = cb_s, .string_start = cb_s_start,
    .array_start = cb_arr, .indef_array_start = cb_iarr, .map_start = cb_map, .indef_map_start = cb_imap,
    .tag = cb_tag, .float2 = cb_f2, .float4 = cb_f4, .float8 = cb_f8,
    .undefined = cb_undef, .null = cb_null, .boolean = cb_bool, .indef_break = cb_break};

unsigned char* vh_exact(size_t n, unsigned align, unsigned char** blk) {
  /* blocks of the sanitizer / C library allocator start 16-aligned; total size is chosen so that start + total is the block end */
  size_t pad = align & 15;
  size_t total = pad + n;
  if (total == 0) total = 1;
  unsigned char* b = malloc(total);
  if (!b) abort();
  *blk = b;
  return b + (total - n);
}
unsigned char* vh_exact_rot(size_t n, unsigned char** blk) {
  static unsigned rot;
  return vh_exact(n, rot++ * 7u, blk); /* 7 is coprime to 16: all alignments, consecutive calls far apart */
}
