/* Recorder for the memory layer.
 *   h_alloc c13 <N>          workloads with every allocator event logged per operation (C13)
 *   h_alloc c06 <N> [--skip I]  every scenario x every request index x {only k, from k} (C06)
 * Build with -DVH_WRAP and the --wrap link flags so that direct libc allocator calls are seen. */
#include <signal.h>
#include <unistd.h>

#include "h_gen.h"
#include "h_tree.h"

static long ncase, opt_skip = -1;
static char cur_desc[256];
static FILE* devnull;

static void on_signal(int sig) { fprintf(stderr, "\nCURRENT-CASE %s idx=%ld %s\n", sig == SIGALRM ? "hang" : "signal", ncase, cur_desc); fflush(stdout); _exit(78); }
static void on_death(void) { fprintf(stderr, "\nCURRENT-CASE sanitizer idx=%ld %s\n", ncase, cur_desc); fflush(stdout); }
#if defined(__has_feature)
#if __has_feature(address_sanitizer)
void __sanitizer_set_death_callback(void (*)(void));
#define HAVE_SAN 1
#endif
#endif

/* ------------------------------------------------------------------ C13 */
static long bypass0;
static void op_begin(void) { va_events_clear(); va_log = 1; bypass0 = vh_bypass; vh_in_lib = 1; }
static void op_end(const char* name, int pure) {
  vh_in_lib = 0;
  va_log = 0;
  fprintf(vh_out, "{\"e\":\"op\",\"name\":\"%s\",\"pure\":%s,\"bypass\":%ld", name, pure ? "true" : "false", vh_bypass - bypass0);
  va_events_json("ev");
  fputs("}\n", vh_out);
}
#define OP(name, pure, stmt) do { op_begin(); stmt; op_end(name, pure); } while (0)

/* every single request of a load (and of a copy of its result) refused in turn, alone and together with all later ones:
 * whatever the error path releases goes back through the installed free, once; nothing goes to the C library */
static void c13_refuse_every_request(const unsigned char* in, size_t n, int every) {
  struct cbor_load_result r;
  long r0 = va.requests;
  cbor_item_t* it = NULL;
  OP("load", 0, it = cbor_load(in, n, &r));
  long nreq = va.requests - r0;
  for (int mode = VA_ONLY; mode <= VA_FROM; mode++)
    for (long k = 0; k < nreq; k++) {
      if (!every && k != (long)vh_randn((uint64_t)nreq)) continue;
      va_fault_mode = mode;
      va_fault_k = va.requests + k;
      cbor_item_t* f = NULL;
      OP("load_with_refusal", 0, f = cbor_load(in, n, &r));
      va_fault_mode = VA_NONE;
      if (f) OP("decref", 0, cbor_decref(&f));
    }
  if (it) {
    r0 = va.requests;
    cbor_item_t* cp = NULL;
    OP("copy", 0, cp = cbor_copy(it));
    long creq = va.requests - r0;
    if (cp) OP("decref", 0, cbor_decref(&cp));
    for (int mode = VA_ONLY; mode <= VA_FROM; mode++)
      for (long k = 0; k < creq; k++) {
        if (!every && k != (long)vh_randn((uint64_t)creq)) continue;
        va_fault_mode = mode;
        va_fault_k = va.requests + k;
        cbor_item_t* f = NULL;
        OP("copy_with_refusal", 0, f = cbor_copy(it));
        va_fault_mode = VA_NONE;
        if (f) OP("decref", 0, cbor_decref(&f));
      }
    OP("decref", 0, cbor_decref(&it));
  }
}

static void c13_iteration(long i) {
  static unsigned char buf[8192], out[8192], m[8192];
  if (i == 0) {
    static const char* corpus[] = {"00", "1818", "20", "3903e7", "40", "4401020304", "60", "6161", "63616263", "5f4101420203ff", "7f6161626263ff", "5fff", "7fff", "80", "8301820203f6",
                                   "9f0102ff", "9fff", "a0", "a10102", "a1616101", "a26161016162820203", "bf616101ff", "bfff", "c101", "c1820102", "d81863616263", "c1c1c100",
                                   "f93c00", "fa3fc00000", "fb3ff8000000000000", "f6", "f5", "826161c16162", "a161618161627f6161ff", "bf6161bf6162c14101ffff", "85010203040506"};
    for (size_t c = 0; c < sizeof corpus / sizeof *corpus; c++) {
      size_t cn = 0;
      for (const char* p = corpus[c]; p[0] && p[1]; p += 2) { unsigned v; sscanf(p, "%2x", &v); m[cn++] = (unsigned char)v; }
      c13_refuse_every_request(m, cn, 1);
    }
    fprintf(vh_out, "{\"e\":\"quiet\",\"live\":%ld,\"foreign\":%ld}\n", va.live, va.foreign_free + va.foreign_realloc);
    /* declared counts and lengths that no allocator can satisfy (refused by size, or rejected before any request is made):
     * whatever was obtained on the way is handed back */
    static const uint64_t huge[] = {1ull << 27, 1ull << 32, 1ull << 59, (1ull << 60) - 1, 1ull << 60, 1ull << 61, 1ull << 62, 1ull << 63, ~0ull - 15, ~0ull};
    for (unsigned hi = 0; hi < sizeof huge / sizeof *huge; hi++) {
      for (int mt = 2; mt <= 5; mt++) {
        unsigned char in[16] = {(unsigned char)(mt << 5 | 27)};
        for (int b = 0; b < 8; b++) in[1 + b] = (unsigned char)(huge[hi] >> (56 - 8 * b));
        memset(in + 9, 0x01, 7);
        for (int wrap = 0; wrap < 2; wrap++) {
          unsigned char w[20] = {0x82, 0x01};
          memcpy(w + 2, in, 16);
          struct cbor_load_result r;
          cbor_item_t* it = NULL;
          OP("load", 0, it = wrap ? cbor_load(w, 18, &r) : cbor_load(in, 16, &r));
          if (it) OP("decref", 0, cbor_decref(&it));
        }
      }
      cbor_item_t *ha = NULL, *hm = NULL;
      OP("new_huge", 0, (ha = cbor_new_definite_array((size_t)huge[hi]), hm = cbor_new_definite_map((size_t)huge[hi])));
      if (ha) OP("decref", 0, cbor_decref(&ha));
      if (hm) OP("decref", 0, cbor_decref(&hm));
    }
    fprintf(vh_out, "{\"e\":\"quiet\",\"live\":%ld,\"foreign\":%ld}\n", va.live, va.foreign_free + va.foreign_realloc);
  }
  size_t n = vg_encoding(buf, 2048, 1 + (int)vh_randn(5));
  /* sometimes corrupt it: error paths release too */
  if (i % 3 == 1 && n > 1) { memcpy(m, buf, n); m[vh_randn(n)] ^= (unsigned char)(1u << vh_randn(8)); memcpy(buf, m, n); }
  if (i % 7 == 2 && n > 1) n = 1 + vh_randn(n - 1);
  struct cbor_load_result r;
  cbor_item_t* it = NULL;
  OP("load", 0, it = cbor_load(buf, n, &r));
  if (it) {
    size_t sz = 0, w = 0;
    OP("describe", 0, cbor_describe(it, devnull)); /* (not among the operations the property requires to be allocation-free) */
    OP("serialized_size", 1, sz = cbor_serialized_size(it));
    OP("serialize", 1, w = cbor_serialize(it, out, sizeof out));
    unsigned char* b = NULL;
    size_t bs = 0;
    OP("serialize_alloc", 0, w = cbor_serialize_alloc(it, &b, &bs));
    if (b) OP("client_free", 0, va_free(b)); /* the client releases the buffer through the installed free */
    cbor_item_t* cp = NULL;
    OP("copy", 0, cp = cbor_copy(it));
    if (cp) OP("decref", 0, cbor_decref(&cp));
    OP("decref", 0, cbor_decref(&it));
    (void)sz; (void)w;
  }
  /* streaming decoder over the same bytes: allocates nothing */
  size_t off = 0;
  int guard = 0;
  while (off < n && guard++ < 4096) {
    struct cbor_decoder_result d;
    vh_ev_clear();
    OP("stream_decode", 1, d = cbor_stream_decode(buf + off, n - off, &vh_recording_callbacks, VH_CTX));
    if (d.status != CBOR_DECODER_FINISHED) break;
    off += d.read;
  }
  /* low-level encoders */
  OP("encode_uint", 1, cbor_encode_uint(vh_rand(), out, 16));
  OP("encode_half", 1, cbor_encode_half(1.5f, out, 16));
  OP("encode_tag", 1, cbor_encode_tag(vh_rand() >> 40, out, 16));
  OP("encode_string_start", 1, cbor_encode_string_start(vh_randn(70000), out, 16));
  OP("encode_break", 1, cbor_encode_break(out, 16));
  /* handles attached by the client: ownership of the block passes to the item, which releases it exactly once;
   * re-attaching the same block (to correct the length) or a block the client moved with the installed realloc is legal */
  {
    cbor_item_t *bs = NULL, *ts = NULL;
    OP("new_definite_strings", 0, (bs = cbor_new_definite_bytestring(), ts = cbor_new_definite_string()));
    unsigned char *h1 = NULL, *h2 = NULL;
    OP("client_alloc", 0, (h1 = va_malloc(8), h2 = va_malloc(8)));    /* (logged: the blocks enter the model's live set) */
    memset(h1, 'x', 8); memset(h2, 'y', 8);
    OP("bytestring_set_handle", 0, cbor_bytestring_set_handle(bs, h1, 8));
    OP("bytestring_set_handle", 0, cbor_bytestring_set_handle(bs, h1, 5));       /* same block, corrected length */
    OP("string_set_handle", 0, cbor_string_set_handle(ts, h2, 8));
    unsigned char* h3 = NULL;
    OP("client_realloc", 0, h3 = va_realloc(h2, 32));                            /* the client grows the payload itself ... */
    memset(h3, 'z', 32);
    OP("string_set_handle", 0, cbor_string_set_handle(ts, h3, 32));               /* ... and hands the moved block back */
    OP("decref", 0, cbor_decref(&bs));
    OP("decref", 0, cbor_decref(&ts));
  }
  /* a refused allocation inside an operation: error paths release what they obtained, once */
  if (i % 2 == 1) {
    c13_refuse_every_request(buf, n, 0);
    static const unsigned char grow[] = {0xbf, 0x01, 0x02, 0x03, 0x04, 0x05, 0x06, 0x07, 0x08, 0x09, 0x0a, 0xff, 0x9f, 0x01, 0x02, 0x03, 0x04, 0x05, 0xff};
    for (int which = 0; which < 2; which++) {
      const unsigned char* in = which ? grow + 12 : grow;
      size_t inl = which ? 7 : 12;
      va_fault_mode = VA_ONLY;
      va_fault_k = va.requests + (long)vh_randn(14);
      struct cbor_load_result fr;
      cbor_item_t* fit = NULL;
      OP("load_with_refusal", 0, fit = cbor_load(in, inl, &fr));
      va_fault_mode = VA_NONE;
      if (fit) {
        va_fault_mode = VA_ONLY;
        va_fault_k = va.requests + (long)vh_randn(14);
        cbor_item_t* fcp = NULL;
        OP("copy_with_refusal", 0, fcp = cbor_copy(fit));
        va_fault_mode = VA_NONE;
        if (fcp) OP("decref", 0, cbor_decref(&fcp));
        OP("decref", 0, cbor_decref(&fit));
      }
    }
    /* a map / array / chunked string grown through the API with one growth step refused */
    cbor_item_t *gm = NULL, *ga = NULL, *gk = NULL;
    OP("new_containers", 0, (gm = cbor_new_indefinite_map(), ga = cbor_new_indefinite_array(), gk = cbor_build_uint8(1)));
    long failat = (long)vh_randn(9);
    for (long j = 0; j < 9; j++) {
      if (j == failat) { va_fault_mode = VA_ONLY; va_fault_k = va.requests; }
      OP("map_add", 0, (void)cbor_map_add(gm, (struct cbor_pair){.key = gk, .value = gk}));
      va_fault_mode = VA_NONE;
      if (j == failat) { va_fault_mode = VA_ONLY; va_fault_k = va.requests; }
      OP("array_push", 0, (void)cbor_array_push(ga, gk));
      va_fault_mode = VA_NONE;
    }
    OP("decref", 0, cbor_decref(&gm));
    OP("decref", 0, cbor_decref(&ga));
    OP("decref", 0, cbor_decref(&gk));
  }
  /* construction API */
  cbor_item_t* t = NULL;
  OP("build", 0, t = vg_build((int)vh_randn(4)));
  if (t) {
    OP("serialized_size", 1, (void)cbor_serialized_size(t));
    OP("decref", 0, cbor_decref(&t));
  }
  fprintf(vh_out, "{\"e\":\"quiet\",\"live\":%ld,\"foreign\":%ld}\n", va.live, va.foreign_free + va.foreign_realloc);
}

static void c13_over_limit(void) {
  /* nesting beyond the decoder's limit: what was obtained for the refused level is released like everything else */
  {
    static unsigned char deep[3 * (CBOR_MAX_STACK_SIZE + 8)];
    static const unsigned char op[] = {0x81, 0x9f, 0xc1, 0xbf, 0x5f, 0xa1};
    for (unsigned k = 0; k < sizeof op; k++) {
      size_t dn = 0;
      for (int j = 0; j < CBOR_MAX_STACK_SIZE + 1; j++) {
        unsigned char o = (k == 4 && j < CBOR_MAX_STACK_SIZE) ? 0x81 : op[k];   /* chunked string: only the innermost level */
        deep[dn++] = o;
        if (o == 0xbf || o == 0xa1) deep[dn++] = 0x00;
      }
      struct cbor_load_result dr;
      cbor_item_t* dit = NULL;
      OP("load_over_limit", 0, dit = cbor_load(deep, dn, &dr));
      if (dit) OP("decref", 0, cbor_decref(&dit));
    }
  }
  fprintf(vh_out, "{\"e\":\"quiet\",\"live\":%ld,\"foreign\":%ld}\n", va.live, va.foreign_free + va.foreign_realloc);
}

/* ------------------------------------------------------------------ C06 */
enum { SC_LOAD, SC_COPY, SC_SER, SC_BUILD, SC_PUSH, SC_MAPADD, SC_CHUNK, SC_NEWTAG, SC_SET, SC_SERNULL, SC_MOVEPUSH, SC_TAGSET, SC_REPLACE, NSC };
static const char* sc_name[] = {"load", "copy", "serialize_alloc", "build", "push", "map_add", "add_chunk", "build_tag", "array_set", "serialize_alloc", "push", "push", "push"};

struct scen {
  int kind, variant;
  uint64_t seed;          /* generator state to rebuild the arguments */
  unsigned char in[4096];
  size_t inlen;
};

static cbor_item_t *arg0, *arg1, *arg2;   /* arguments of the operation under test */
static void setup_args(struct scen* s) {
  vh_rng_state = s->seed;
  arg0 = arg1 = arg2 = NULL;
  switch (s->kind) {
    case SC_LOAD: break;
    case SC_COPY: case SC_SER: case SC_SERNULL: {
      if (s->inlen) { struct cbor_load_result r; arg0 = cbor_load(s->in, s->inlen, &r); }
      else arg0 = vg_build(1 + s->variant % 4);
      break;
    }
    case SC_BUILD: break;
    case SC_PUSH: case SC_SET: case SC_MOVEPUSH: { /* indefinite array holding `variant` members: the next push grows at 0,1,2,4,8 */
      arg0 = cbor_new_indefinite_array();
      for (int i = 0; i < s->variant; i++) { cbor_item_t* x = cbor_build_uint8((uint8_t)i); (void)cbor_array_push(arg0, x); cbor_decref(&x); }
      arg1 = cbor_build_string("pushee");
      break;
    }
    case SC_MAPADD: {
      arg0 = cbor_new_indefinite_map();
      for (int i = 0; i < s->variant; i++) { cbor_item_t* x = cbor_build_uint8((uint8_t)i); (void)cbor_map_add(arg0, (struct cbor_pair){.key = x, .value = x}); cbor_decref(&x); }
      arg1 = cbor_build_uint16(77);
      arg2 = cbor_build_string("v");
      break;
    }
    case SC_CHUNK: {
      int bs = s->variant & 16;
      int cnt = s->variant & 15;
      arg0 = bs ? cbor_new_indefinite_bytestring() : cbor_new_indefinite_string();
      for (int i = 0; i < cnt; i++) {
        cbor_item_t* x = bs ? cbor_build_bytestring((const unsigned char*)"c", 1) : cbor_build_string("c");
        (void)(bs ? cbor_bytestring_add_chunk(arg0, x) : cbor_string_add_chunk(arg0, x));
        cbor_decref(&x);
      }
      arg1 = bs ? cbor_build_bytestring((const unsigned char*)"n", 1) : cbor_build_string("n");
      break;
    }
    case SC_NEWTAG: arg0 = vg_build(1); break;
  }
}

static const char* run_op(struct scen* s, cbor_item_t** result) {
  *result = NULL;
  switch (s->kind) {
    case SC_LOAD: {
      unsigned char* ex = malloc(s->inlen ? s->inlen : 1);
      memcpy(ex, s->in, s->inlen);
      struct cbor_load_result r;
      memset(&r, 0xAB, sizeof r);
      cbor_item_t* it = cbor_load(ex, s->inlen, &r);
      free(ex);
      *result = it;
      if (it) return "ok";
      return r.error.code == CBOR_ERR_MEMERROR ? "mem" : r.error.code == CBOR_ERR_NOTENOUGHDATA ? "nedata" : r.error.code == CBOR_ERR_SYNTAXERROR ? "syntax"
             : r.error.code == CBOR_ERR_MALFORMATED ? "malformed" : "other";
    }
    case SC_COPY: *result = cbor_copy(arg0); return *result ? "ok" : "null";
    case SC_SER: {
      unsigned char* b = (unsigned char*)1;
      size_t bs = 777;
      size_t w = cbor_serialize_alloc(arg0, &b, &bs);
      if (w == 0) return (b == NULL && bs == 0) ? "zero" : "zero-but-outputs-set";
      va_free(b);
      return "ok";
    }
    case SC_BUILD: {
      cbor_item_t* it = NULL;
      switch (s->variant) {
        case 0: it = cbor_build_uint8(1); break;
        case 1: it = cbor_build_uint64(1); break;
        case 2: it = cbor_build_negint16(1); break;
        case 3: it = cbor_build_string("hello"); break;
        case 4: it = cbor_build_stringn("hello", 3); break;
        case 5: it = cbor_build_bytestring((const unsigned char*)"ab", 2); break;
        case 6: it = cbor_new_definite_array(4); break;
        case 7: it = cbor_new_indefinite_array(); break;
        case 8: it = cbor_new_definite_map(4); break;
        case 9: it = cbor_new_indefinite_map(); break;
        case 10: it = cbor_new_indefinite_string(); break;
        case 11: it = cbor_new_indefinite_bytestring(); break;
        case 12: it = cbor_new_tag(5); break;
        case 13: it = cbor_build_float2(1.5f); break;
        case 14: it = cbor_build_float8(1.5); break;
        case 15: it = cbor_build_bool(true); break;
        case 16: it = cbor_new_null(); break;
        case 17: it = cbor_build_ctrl(22); break;
        case 18: it = cbor_new_definite_string(); break;
        case 19: it = cbor_new_int32(); break;
        case 20: it = cbor_new_definite_bytestring(); break;
        case 21: it = cbor_new_undef(); break;
        case 22: it = cbor_build_negint64(5); break;
        case 23: it = cbor_build_float4(2.5f); break;
        default: it = cbor_new_definite_array(0); break;
      }
      *result = it;
      return it ? "ok" : "null";
    }
    case SC_PUSH: return cbor_array_push(arg0, arg1) ? "ok" : "false";
    case SC_MOVEPUSH: { /* the documented idiom cbor_array_push(a, cbor_move(x)): the pushee arrives with the caller's reference given away */
      bool ok = cbor_array_push(arg0, cbor_move(arg1));
      if (ok) cbor_incref(arg1); /* (so that the common clean-up can drop one reference) */
      else arg1->refcount++;    /* the item must still exist, exactly as handed in: take the reference back */
      return ok ? "ok" : "false";
    }
    case SC_SERNULL: { /* the optional size output parameter omitted */
      unsigned char* b = (unsigned char*)1;
      size_t w = cbor_serialize_alloc(arg0, &b, NULL);
      if (w == 0) return b == NULL ? "zero" : "zero-but-outputs-set";
      va_free(b);
      return "ok";
    }
    case SC_SET: return cbor_array_set(arg0, cbor_array_size(arg0), arg1) ? "ok" : "false";
    case SC_MAPADD: return cbor_map_add(arg0, (struct cbor_pair){.key = arg1, .value = arg2}) ? "ok" : "false";
    case SC_CHUNK: return ((s->variant & 16) ? cbor_bytestring_add_chunk(arg0, arg1) : cbor_string_add_chunk(arg0, arg1)) ? "ok" : "false";
    case SC_NEWTAG: *result = cbor_build_tag(9, arg0); return *result ? "ok" : "null";
  }
  return "?";
}

static void log_args(const char* key) {
  fprintf(vh_out, ",\"%s\":[", key);
  vt_tree(vh_out, arg0); fputc(',', vh_out);
  vt_tree(vh_out, arg1); fputc(',', vh_out);
  vt_tree(vh_out, arg2);
  fputc(']', vh_out);
}
static void free_args(void) {
  if (arg0) cbor_decref(&arg0);
  if (arg1) cbor_decref(&arg1);
  if (arg2) cbor_decref(&arg2);
}

static void scenario(struct scen* s) {
  /* fault-free run: count the requests */
  va_fault_mode = VA_NONE;
  setup_args(s);
  if ((s->kind == SC_COPY || s->kind == SC_SER || s->kind == SC_SERNULL || s->kind == SC_NEWTAG) && !arg0) { free_args(); return; } /* input not acceptable */
  long r0 = va.requests;
  cbor_item_t* res;
  const char* ret0 = run_op(s, &res);
  long N = va.requests - r0;
  if (res) cbor_decref(&res);
  free_args();
  (void)ret0;
  for (long k = 0; k < N; k++) {
    for (int mode = VA_ONLY; mode <= VA_FROM; mode++) {
      ncase++;
      if (ncase <= opt_skip) continue;
      snprintf(cur_desc, sizeof cur_desc, "scenario=%s variant=%d k=%ld mode=%s inlen=%zu", sc_name[s->kind], s->variant, k, mode == VA_ONLY ? "only" : "from", s->inlen);
      setup_args(s);
      long live0 = va.live;
      fprintf(vh_out, "{\"e\":\"fault\",\"sc\":\"%s\",\"variant\":%d,\"k\":%ld,\"mode\":\"%s\",\"n\":%ld", sc_name[s->kind], s->variant, k, mode == VA_ONLY ? "only" : "from", N);
      if (s->kind == SC_LOAD) vh_kbytes("in", s->in, s->inlen < 64 ? s->inlen : 64);
      log_args("before");
      va_events_clear();
      va_log = 1;
      long rq = va.requests;
      va_fault_mode = mode;
      va_fault_k = rq + k;
      alarm(300);
      const char* ret = run_op(s, &res);
      alarm(0);
      va_fault_mode = VA_NONE;
      va_log = 0;
      vh_kstr("ret", ret);
      va_events_json("ev");
      log_args("after");
      vh_kint("live_delta_before_release", va.live - live0);
      if (res) cbor_decref(&res);
      vh_kint("live_delta", va.live - live0);
      fputs("}\n", vh_out);
      free_args();
    }
  }
}

int main(int argc, char** argv) {
  if (argc < 3) return 2;
  for (int i = 3; i + 1 < argc; i++) if (!strcmp(argv[i], "--skip")) opt_skip = atol(argv[i + 1]);
  devnull = fopen("/dev/null", "w");
  va_install();
  if (!strcmp(argv[1], "c06")) va_cap = 0; /* no size cap: only the scheduled requests are refused */
#ifdef HAVE_SAN
  __sanitizer_set_death_callback(on_death);
#endif
  (void)on_death;
  signal(SIGALRM, on_signal);
  signal(SIGABRT, on_signal);
#ifndef HAVE_SAN
  signal(SIGSEGV, on_signal);
#endif
  long N = atol(argv[2]);
  if (!strcmp(argv[1], "c13limit")) {
    c13_over_limit(); /* (run against a build with a small CBOR_MAX_STACK_SIZE: the logs stay short) */
  } else if (!strcmp(argv[1], "c13") || !strcmp(argv[1], "c13arena")) {
    if (!strcmp(argv[1], "c13arena")) va_use_arena((size_t)1 << 30);
    for (long i = 0; i < N; i++) { c13_iteration(i); va_arena_reset(); }
  } else {
    static struct scen s;
    /* builders, growth steps, tags: fixed enumerations */
    for (int v = 0; v < 25; v++) { s = (struct scen){.kind = SC_BUILD, .variant = v, .seed = 1}; scenario(&s); }
    static const int sizes[] = {0, 1, 2, 3, 4, 7, 8, 16};
    for (int i = 0; i < 8; i++) {
      s = (struct scen){.kind = SC_PUSH, .variant = sizes[i], .seed = 1}; scenario(&s);
      s = (struct scen){.kind = SC_SET, .variant = sizes[i], .seed = 1}; scenario(&s);
      s = (struct scen){.kind = SC_MOVEPUSH, .variant = sizes[i], .seed = 1}; scenario(&s);
      s = (struct scen){.kind = SC_MAPADD, .variant = sizes[i], .seed = 1}; scenario(&s);
      s = (struct scen){.kind = SC_CHUNK, .variant = sizes[i] & 15, .seed = 1}; scenario(&s);
      s = (struct scen){.kind = SC_CHUNK, .variant = 16 | (sizes[i] & 15), .seed = 1}; scenario(&s);
    }
    /* a fixed corpus exercising every allocation site of the decoder and of copy, then random items */
    static const char* corpus[] = {"00", "1818", "20", "3903e7", "40", "4401020304", "60", "6161", "5f4101420203ff", "7f6161626263ff", "80", "8301820203f6",
                                   "9f0102ff", "a0", "a201020304", "bf6161019f02ff03ff", "c074323031332d30332d3231", "d8184101", "f4", "f97e00", "fa47c35000",
                                   "fb3ff199999999999a", "9f9f9f01ffffff", "a1a1000102", "c1c2c301", "82c0f6bf00a0ff", "5fff", "9fff", "bfff", "d9d9f780",
                                   "20", "3863", "3a0001869f", "3b0000000100000000", "81d82020", "bf20210ff5ff", "83f9fc00fa7f800000fbfff0000000000000", "c23b7fffffffffffffff"};
    for (size_t c = 0; c < sizeof corpus / sizeof *corpus; c++) {
      size_t n = 0;
      for (const char* p = corpus[c]; p[0] && p[1]; p += 2) { unsigned v; sscanf(p, "%2x", &v); s.in[n++] = (unsigned char)v; }
      for (int kind = SC_LOAD; kind <= SC_SER; kind++) { s.kind = kind; s.variant = 0; s.seed = 7; s.inlen = n; scenario(&s); }
      s.kind = SC_SERNULL; scenario(&s);
    }
    for (long i = 0; i < N; i++) {
      vh_rng_state = 0x1234567 + (uint64_t)i * 0x9E3779B97F4A7C15ull;
      s.inlen = vg_encoding(s.in, 1024, 1 + (int)(i % 4));
      for (int kind = SC_LOAD; kind <= SC_SER; kind++) { s.kind = kind; s.variant = 0; s.seed = 7; scenario(&s); }
      /* API-built trees (shared sub-items) for copy / serialize / tag */
      s.inlen = 0;
      for (int kind = SC_COPY; kind <= SC_SER; kind++) { s.kind = kind; s.variant = (int)i; s.seed = 0x777 + (uint64_t)i; scenario(&s); }
      s.kind = SC_NEWTAG; s.variant = (int)i; s.seed = 0x999 + (uint64_t)i; scenario(&s);
    }
  }
  fflush(vh_out);
  fprintf(stderr, "h_alloc: cases=%ld bypass=%ld\n", ncase, vh_bypass);
  return 0;
}
