#include "h_gen.h"

#include <math.h>

int vg_share = 1;
int vg_wild_half = 0; /* half-width float items may hold any single value (outside C03's domain, inside C07's and C11's) */
static cbor_item_t* pool[16];
static int npool;

static uint64_t bval(void) {
  static const uint64_t bnd[] = {0, 1, 23, 24, 255, 256, 65535, 65536, 4294967295ull, 4294967296ull, ~0ull,
                                 /* numbers with a registered meaning as tags (a library might be tempted to treat them specially): date/time, bignums,
                                  * embedded CBOR, URI/base64/regex/MIME, the self-describe magic 55799 and its neighbours, the "invalid" ones */
                                 2, 3, 4, 5, 21, 22, 32, 36, 55798, 55799, 55800, 65534, 4294967294ull, ~0ull - 1};
  return vh_randn(3) ? bnd[vh_randn(sizeof bnd / sizeof *bnd)] : vh_rand() >> vh_randn(64);
}
static float half_value(void) {
  if (vg_wild_half && !vh_randn(3)) {
    static const float w[] = {65536.0f, 65520.0f, 65519.99f, 1e6f, -1e30f, 3.4028235e38f, 1e-8f, 5.9604645e-8f, 2.9802322e-8f, 6.1035156e-5f, 6.0975552e-5f, 1.0009766f, 1.00048828125f, 0.1f, -0.3f, 1e-40f};
    if (vh_randn(2)) return w[vh_randn(sizeof w / sizeof *w)];
    uint32_t u = (uint32_t)vh_rand();
    float f;
    memcpy(&f, &u, 4);
    return f;
  }
  /* a float that is exactly representable as a half (or an infinity / NaN) */
  unsigned h = (unsigned)vh_randn(65536);
  int e = (h >> 10) & 31, m = h & 1023;
  double v = e == 0 ? ldexp(m, -24) : e != 31 ? ldexp(m + 1024, e - 25) : m == 0 ? INFINITY : NAN;
  return (float)(h & 0x8000 ? -v : v);
}

/* the other public way of making scalars: cbor_new_* followed by cbor_set_* / cbor_mark_* (also: setting twice, marking back and forth) */
static cbor_item_t* leaf_by_setters(void) {
  uint64_t v = bval();
  int k = (int)vh_randn(12);
  cbor_item_t* it = NULL;
  switch (k) {
    case 0: case 1: case 2: case 3: case 4: case 5: case 6: case 7: {
      int w = k & 3, neg = k >> 2;
      it = w == 0 ? cbor_new_int8() : w == 1 ? cbor_new_int16() : w == 2 ? cbor_new_int32() : cbor_new_int64();
      if (!it) return NULL;
      if (vh_randn(3) == 0) { if (neg) cbor_mark_uint(it); else cbor_mark_negint(it); } /* the wrong mark first, corrected below */
      if (vh_randn(2)) { if (w == 0) cbor_set_uint8(it, 0x5a); else if (w == 1) cbor_set_uint16(it, 0x5a5a); else if (w == 2) cbor_set_uint32(it, 0x5a5a5a5au); else cbor_set_uint64(it, ~0ull); }
      if (w == 0) cbor_set_uint8(it, (uint8_t)v); else if (w == 1) cbor_set_uint16(it, (uint16_t)v); else if (w == 2) cbor_set_uint32(it, (uint32_t)v); else cbor_set_uint64(it, v);
      if (neg) cbor_mark_negint(it); else cbor_mark_uint(it);
      return it;
    }
    case 8: {
      it = cbor_new_ctrl();
      if (!it) return NULL;
      cbor_set_ctrl(it, (uint8_t)(20 + vh_randn(4)));
      if (cbor_is_bool(it) && vh_randn(2)) cbor_set_bool(it, vh_randn(2)); /* cbor_set_bool is for items that already are booleans */
      return it;
    }
    case 9: {
      it = cbor_new_float2();
      if (!it) return NULL;
      if (vh_randn(2)) cbor_set_float2(it, 1.0f);
      cbor_set_float2(it, half_value());
      return it;
    }
    case 10: {
      uint32_t u = (uint32_t)vh_rand();
      if (!vh_randn(4)) u |= 0x7f800000u;
      float f;
      memcpy(&f, &u, 4);
      it = cbor_new_float4();
      if (!it) return NULL;
      if (vh_randn(2)) cbor_set_float4(it, -0.0f);
      cbor_set_float4(it, f);
      return it;
    }
    default: {
      uint64_t u = vh_rand();
      if (!vh_randn(4)) u |= 0x7ff0000000000000ull;
      double d;
      memcpy(&d, &u, 8);
      it = cbor_new_float8();
      if (!it) return NULL;
      if (vh_randn(2)) cbor_set_float8(it, 1e300);
      cbor_set_float8(it, d);
      return it;
    }
  }
}

static cbor_item_t* leaf(void) {
  if (vh_randn(4) == 0) return leaf_by_setters();
  /* a definite string whose handle was never set: documented as a valid empty string (NULL handle, length 0) */
  if (vh_randn(24) == 0) return vh_randn(2) ? cbor_new_definite_bytestring() : cbor_new_definite_string();
  uint64_t v = bval();
  switch (vh_randn(16)) {
    case 0: return cbor_build_uint8((uint8_t)v);
    case 1: return cbor_build_uint16((uint16_t)v);
    case 2: return cbor_build_uint32((uint32_t)v);
    case 3: return cbor_build_uint64(v);
    case 4: return cbor_build_negint8((uint8_t)v);
    case 5: return cbor_build_negint16((uint16_t)v);
    case 6: return cbor_build_negint32((uint32_t)v);
    case 7: return cbor_build_negint64(v);
    case 8: {
      static const char* s[] = {"", "a", "hello", "\xc3\xa9t\xc3\xa9", "\xe2\x82\xac", "\xff\xfe"};
      if (vh_randn(8) == 0) return cbor_build_stringn("a\0b\xc3\xa9\0\0z", 8); /* U+0000 is a valid scalar value: text may contain NUL bytes */
      return cbor_build_string(s[vh_randn(6)]);
    }
    case 9: {
      unsigned char b[40];
      size_t n = vh_randn(vh_randn(4) ? 5 : 40);
      for (size_t i = 0; i < n; i++) b[i] = (unsigned char)vh_rand();
      return vh_randn(2) ? cbor_build_bytestring(b, n) : cbor_build_stringn((const char*)b, n);
    }
    case 10: return cbor_build_bool(vh_randn(2));
    case 11: return vh_randn(2) ? cbor_new_null() : cbor_new_undef();
    case 12:
      if (vg_wild_half && !vh_randn(3)) { uint8_t c = (uint8_t)vh_rand(); if (c >= 24 && c < 32) c = (uint8_t)(c - 24); return cbor_build_ctrl(c); } /* unassigned simple values: outside C03's domain, legal items otherwise */
      return cbor_build_ctrl((uint8_t)(20 + vh_randn(4)));
    case 13: return cbor_build_float2(half_value());
    case 14: {
      uint32_t u = (uint32_t)vh_rand();
      if (!vh_randn(4)) u |= 0x7f800000u;
      else if (!vh_randn(6)) u &= 0x807fffffu;          /* zero or subnormal */
      if (!vh_randn(12)) u &= 0xff800000u;              /* mantissa 0: +-0, +-infinity, powers of two */
      float f;
      memcpy(&f, &u, 4);
      return cbor_build_float4(f);
    }
    default: {
      uint64_t u = vh_rand();
      if (!vh_randn(4)) u |= 0x7ff0000000000000ull;
      else if (!vh_randn(6)) u &= 0x800fffffffffffffull;  /* zero or subnormal */
      if (!vh_randn(12)) u &= 0xfff0000000000000ull;      /* mantissa 0: +-0, +-infinity, powers of two */
      double d;
      memcpy(&d, &u, 8);
      return cbor_build_float8(d);
    }
  }
}

static cbor_item_t* build(int depth);
static cbor_item_t* member(int depth) {
  if (vg_share && npool > 0 && !vh_randn(5)) return cbor_incref(pool[vh_randn(npool)]);
  cbor_item_t* it = build(depth);
  if (it && vg_share && npool < 16 && !vh_randn(3)) pool[npool++] = cbor_incref(it);
  return it;
}

static cbor_item_t* build(int depth) {
  if (depth <= 0 || !vh_randn(3)) return leaf();
  switch (vh_randn(8)) {
    case 0: case 1: { /* array */
      size_t n = vh_randn(6) ? vh_randn(5) : vh_randn(13);
      bool def = vh_randn(2);
      /* definite: sometimes spare slots, occasionally a capacity on the other side of a head-width boundary (23/24, 255/256, 65535/65536) */
      static const size_t spare[] = {0, 0, 0, 1, 1, 2, 21, 24, 30, 252, 256, 300, 65533, 65536};
      cbor_item_t* a = def ? cbor_new_definite_array(n + spare[vh_randn(14)]) : cbor_new_indefinite_array();
      if (!a) return NULL;
      for (size_t i = 0; i < n; i++) {
        cbor_item_t* m = member(depth - 1);
        if (!m) break;
        bool ok = vh_randn(2) ? cbor_array_push(a, m) : cbor_array_set(a, cbor_array_size(a), m);
        cbor_decref(&m);
        if (!ok) break;
      }
      return a;
    }
    case 2: case 3: { /* map */
      size_t n = vh_randn(6) ? vh_randn(4) : vh_randn(13); /* now and then up to 12 entries: every capacity step 1,2,4,8,16 and the counts between */
      bool def = vh_randn(2);
      static const size_t mspare[] = {0, 0, 0, 1, 1, 2, 21, 24, 30, 252, 256, 300, 65533, 65536};
      cbor_item_t* mp = def ? cbor_new_definite_map(n + mspare[vh_randn(14)]) : cbor_new_indefinite_map();
      if (!mp) return NULL;
      for (size_t i = 0; i < n; i++) {
        cbor_item_t* k = member(depth - 1);
        cbor_item_t* v = k ? member(depth - 1) : NULL;
        if (k && v) (void)cbor_map_add(mp, (struct cbor_pair){.key = k, .value = v});
        if (k) cbor_decref(&k);
        if (v) cbor_decref(&v);
      }
      return mp;
    }
    case 4: { /* chunked byte string */
      cbor_item_t* s = cbor_new_indefinite_bytestring();
      if (!s) return NULL;
      size_t n = vh_randn(6) ? vh_randn(4) : vh_randn(13); /* now and then up to 12 entries: every capacity step 1,2,4,8,16 and the counts between */
      for (size_t i = 0; i < n; i++) {
        unsigned char b[8];
        size_t l = vh_randn(6);
        for (size_t j = 0; j < l; j++) b[j] = (unsigned char)vh_rand();
        cbor_item_t* c = cbor_build_bytestring(b, l);
        if (!c) break;
        (void)cbor_bytestring_add_chunk(s, c);
        cbor_decref(&c);
      }
      return s;
    }
    case 5: { /* chunked text string */
      cbor_item_t* s = cbor_new_indefinite_string();
      if (!s) return NULL;
      size_t n = vh_randn(6) ? vh_randn(4) : vh_randn(13); /* now and then up to 12 entries: every capacity step 1,2,4,8,16 and the counts between */
      /* (chunks may end inside a multi-byte character: libcbor does not validate text, and neither does it refuse such chunks) */
      static const char* parts[] = {"", "a", "bc", "\xc3\xa9", "xyz", "a\xc3", "\xa9" "b", "\xe2\x82", "\xac", "\xf0\x9f", "\x98\x80!"};
      for (size_t i = 0; i < n; i++) {
        cbor_item_t* c = cbor_build_string(parts[vh_randn(11)]);
        if (!c) break;
        (void)cbor_string_add_chunk(s, c);
        cbor_decref(&c);
      }
      return s;
    }
    default: { /* tag */
      if (!vh_randn(8)) { /* the shape of a bignum / decimal fraction / date: a registered tag around the content it is registered for */
        static const unsigned char z[] = {0x00, 0x00, 0x01, 0x02, 0x00};
        static const uint64_t tg[] = {2, 3, 2, 3, 24, 0, 1};
        int k = (int)vh_randn(7);
        cbor_item_t* c = k < 5 ? cbor_build_bytestring(z, 1 + vh_randn(5)) : k == 5 ? cbor_build_string("2026-10-03T00:00:00Z") : cbor_build_uint32(1790000000u);
        if (!c) return NULL;
        cbor_item_t* t = cbor_build_tag(tg[k], c);
        cbor_decref(&c);
        return t;
      }
      cbor_item_t* c = member(depth - 1);
      if (!c) return NULL;
      cbor_item_t* t;
      if (vh_randn(2)) t = cbor_build_tag(bval(), c);
      else {
        t = cbor_new_tag(bval());
        if (t) cbor_tag_set_item(t, c);
      }
      cbor_decref(&c);
      return t;
    }
  }
}

cbor_item_t* vg_build(int depth) {
  cbor_item_t* r = build(depth);
  for (int i = 0; i < npool; i++) cbor_decref(&pool[i]);
  npool = 0;
  return r;
}

/* ---- random well-formed encodings (bytes) ---- */
static size_t put_head(unsigned char* b, unsigned mt, uint64_t v, int forcew) {
  int w = forcew >= 0 ? forcew : (v < 24 ? 0 : v < 256 ? 1 : v < 65536 ? 2 : v < 4294967296ull ? 4 : 8);
  if (w == 0 && v >= 24) w = 1;
  b[0] = (unsigned char)(mt << 5 | (w == 0 ? v : w == 1 ? 24 : w == 2 ? 25 : w == 4 ? 26 : 27));
  for (int i = 0; i < w; i++) b[1 + i] = (unsigned char)(v >> (8 * (w - 1 - i)));
  return 1 + w;
}
static int rand_width(uint64_t v) {
  int min = v < 24 ? 0 : v < 256 ? 1 : v < 65536 ? 2 : v < 4294967296ull ? 4 : 8;
  static const int ws[] = {0, 1, 2, 4, 8};
  if (vh_randn(4)) return min;
  int w;
  do w = ws[vh_randn(5)]; while (w < min);
  return w;
}
/* wide items: counts and lengths on both sides of the head-width boundaries (23/24, 255/256, 65535/65536), so that
 * 1-, 2- and 4-byte count heads, container growth in the decoder and long payloads are exercised */
static size_t wide_item(unsigned char* b, size_t cap) {
  static const size_t counts[] = {24, 25, 31, 32, 33, 64, 100, 255, 256, 257, 300, 1000};
  size_t c = counts[vh_randn(cap > 5000 ? 12 : cap > 1500 ? 11 : 7)];
  size_t n = 0;
  switch (vh_randn(7)) {
    case 0: /* definite array of c small leaves */
      n = put_head(b, 4, c, rand_width(c));
      for (size_t i = 0; i < c; i++) b[n++] = (unsigned char)(i % 24);
      return n;
    case 1: /* indefinite array */
      b[n++] = 0x9f;
      for (size_t i = 0; i < c; i++) b[n++] = (unsigned char)(0x20 + i % 24);
      b[n++] = 0xff;
      return n;
    case 2: /* definite map, c/2 pairs */
      n = put_head(b, 5, c / 2, rand_width(c / 2));
      for (size_t i = 0; i < c / 2; i++) { b[n++] = (unsigned char)(i % 24); b[n++] = 0xf6; }
      return n;
    case 3: /* indefinite map */
      b[n++] = 0xbf;
      for (size_t i = 0; i < c / 2; i++) { b[n++] = 0x61; b[n++] = (unsigned char)('a' + i % 26); b[n++] = (unsigned char)(i % 24); }
      b[n++] = 0xff;
      return n;
    case 4: { /* chunked string with many chunks */
      int bs = (int)vh_randn(2);
      size_t m = c > 300 ? 300 : c;
      b[n++] = bs ? 0x5f : 0x7f;
      for (size_t i = 0; i < m; i++) { b[n++] = bs ? 0x41 : 0x61; b[n++] = (unsigned char)('a' + i % 26); }
      b[n++] = 0xff;
      return n;
    }
    default: { /* long definite string */
      static const size_t lens[] = {23, 24, 25, 255, 256, 257, 1000, 65535, 65536};
      size_t l = lens[vh_randn(cap > 70000 ? 9 : cap > 1500 ? 7 : 6)];
      int t = 2 + (int)vh_randn(2);
      n = put_head(b, t, l, rand_width(l));
      for (size_t i = 0; i < l; i++) b[n++] = (unsigned char)('a' + i % 26);
      return n;
    }
  }
}

size_t vg_encoding(unsigned char* b, size_t cap, int depth) {
  if (cap < 64) { b[0] = 0x01; return 1; }
  if (cap >= 700 && vh_randn(14) == 0) return wide_item(b, cap);
  int k = (int)vh_randn(depth <= 0 ? 6 : 14);
  size_t n = 0;
  switch (k) {
    case 0: { uint64_t v = bval(); return put_head(b, 0, v, rand_width(v)); }
    case 1: { uint64_t v = bval(); return put_head(b, 1, v, rand_width(v)); }
    case 2: case 3: {
      size_t l = vh_randn(vh_randn(8) ? 6 : 40);
      n = put_head(b, k, l, rand_width(l));
      for (size_t i = 0; i < l; i++) b[n++] = k == 3 && vh_randn(4) ? (unsigned char)('a' + vh_randn(26)) : (unsigned char)vh_rand();
      return n;
    }
    case 4: { static const unsigned char s[] = {0xf4, 0xf5, 0xf6, 0xf7}; b[0] = s[vh_randn(4)]; return 1; }
    case 5: { int w = 2 << vh_randn(3); b[0] = w == 2 ? 0xf9 : w == 4 ? 0xfa : 0xfb; for (int i = 0; i < w; i++) b[1 + i] = (unsigned char)vh_rand();
              if (!vh_randn(4)) { b[1] = 0x7f; b[2] |= 0xf0; }
              else if (!vh_randn(5)) { /* exponent field 0 (zeros and subnormals) or all ones (infinities and NaNs), either sign */
                int ones = (int)vh_randn(2), zero_mant = (int)vh_randn(3) == 0;
                b[1] = (unsigned char)((b[1] & 0x80) | (ones ? 0x7f : 0x00));
                if (w == 2) b[1] = (unsigned char)((b[1] & 0x80) | (ones ? 0x7c : 0x00) | (b[1] & 0x03 & (zero_mant ? 0 : 3)));
                else if (w == 4) b[2] = (unsigned char)((ones ? 0x80 : 0x00) | (b[2] & 0x7f));
                else b[2] = (unsigned char)((ones ? 0xf0 : 0x00) | (b[2] & 0x0f));
                if (zero_mant) { for (int i = 2; i <= w; i++) b[i] = (unsigned char)(i == 2 ? (w == 4 ? (b[2] & 0x80) : w == 8 ? (b[2] & 0xf0) : 0) : 0); if (w == 2) b[1] &= 0xfc; }
              }
              return 1 + w; }
    case 6: case 7: {
      size_t c = vh_randn(4);
      n = put_head(b, k == 6 ? 4 : 5, c, rand_width(c));
      for (size_t i = 0; i < c * (k == 6 ? 1 : 2); i++) n += vg_encoding(b + n, (cap - n) / 2, depth - 1);
      return n;
    }
    case 8: case 9: {
      size_t c = vh_randn(4);
      b[n++] = k == 8 ? 0x9f : 0xbf;
      for (size_t i = 0; i < c * (k == 8 ? 1 : 2); i++) n += vg_encoding(b + n, (cap - n) / 2, depth - 1);
      b[n++] = 0xff;
      return n;
    }
    case 10: case 11: {
      size_t c = vh_randn(4);
      b[n++] = k == 10 ? 0x5f : 0x7f;
      for (size_t i = 0; i < c; i++) {
        if (k == 11 && !vh_randn(3)) { /* a character spread over two chunks, or cut off by the end of a chunk */
          static const char* cut[] = {"a\xc3", "\xa9" "b", "\xe2\x82", "\xac", "\xf0\x9f", "\x98\x80"};
          const char* t = cut[vh_randn(6)];
          size_t tl = strlen(t);
          n += put_head(b + n, 3, tl, rand_width(tl));
          memcpy(b + n, t, tl); n += tl;
          continue;
        }
        size_t l = vh_randn(5);
        n += put_head(b + n, k == 10 ? 2 : 3, l, rand_width(l));
        for (size_t j = 0; j < l; j++) b[n++] = (unsigned char)('a' + vh_randn(26));
      }
      b[n++] = 0xff;
      return n;
    }
    default: { uint64_t v = bval(); n = put_head(b, 6, v, rand_width(v)); return n + vg_encoding(b + n, cap - n, depth - 1); }
  }
}
