#ifndef H_GEN_H
#define H_GEN_H
#include "vh.h"
/* Random item tree built through the public construction API (all builders, all widths, boundary values,
 * empty and multi-chunk strings, partially filled definite containers, shared sub-items).
 * Returns an item the caller owns (one reference), or NULL if an allocation was refused. */
cbor_item_t* vg_build(int depth);
/* allow shared sub-items (an item referenced from several places) */
extern int vg_share;
extern int vg_wild_half;
/* well-formed random encoding into buf (same generator as h_load's), returns length */
size_t vg_encoding(unsigned char* b, size_t cap, int depth);
#endif
